// Package explore is the stateless deviation-bounded depth-first explorer over
// choice sequences of vsched executions.
package explore

import (
	"fmt"
	"os"
	"time"

	"github.com/KevoDB/kevo/pkg/zzverif/vsched"
)

// Scenario is a closed driver: Body runs as thread 0 of a fresh execution and returns the observation.
type Scenario struct {
	Name string
	Body func() any
	// Check evaluates the oracle on one finished execution. It returns a key that
	// identifies the observed outcome (for the distinct-outcomes statistic) and a
	// non-empty problem description if the oracle is violated.
	Check func(s *vsched.Sched, obs any) (outcome string, problem string)
	// EnvBudgets enables environment event sources by name substring.
	EnvBudgets map[string]int
	MaxSteps   int
	// AllowDeadlock etc. are never set: deadlock/livelock/panic/horizon are always problems.
}

// Violation found by the explorer.
type Violation struct {
	Scenario string   `json:"scenario"`
	Choices  []int    `json:"choices"`
	Outcome  string   `json:"outcome"`
	Problem  string   `json:"problem"`
	Trace    []string `json:"trace,omitempty"`
	Cost     int      `json:"deviations"`
}

// Stats of one search.
type Stats struct {
	Scenario    string         `json:"scenario"`
	Bound       int            `json:"bound"`
	Executions  int            `json:"executions"`
	Complete    int            `json:"complete_executions"`
	Cached      int            `json:"cut_by_hb_cache"`
	Skipped     int            `json:"skipped_by_post_state_prediction"`
	Points      int            `json:"decision_points"`
	Steps       int            `json:"steps"`
	States      int            `json:"hb_states"`
	Conflicts   int            `json:"executions_with_conflict"`
	Outcomes    map[string]int `json:"outcomes"`
	MaxDepth    int            `json:"max_decisions"`
	Exhaustive  bool           `json:"exhaustive"`
	Violations  []Violation    `json:"violations,omitempty"`
	Unstable    int            `json:"unstable"`
	WallS       float64        `json:"wall_s"`
	Sample      []string       `json:"sample_trace,omitempty"`
	ReplayOK    bool           `json:"replay_selfcheck"`
}

// Options for Explore.
type Options struct {
	Bound    int // <0 unbounded
	Cache    bool
	Deadline time.Time
	Shard    int
	NShards  int
	MaxViol  int
	StopAtFirst bool
}

var noPredict = os.Getenv("VERIF_NOPREDICT") != ""

type explorer struct {
	sc    *Scenario
	opt   Options
	cache *vsched.Cache
	st    *Stats
	unit  int // counter of level-1/2 subtrees for sharding
	stop  bool
}

// Beat, when set, is told about every execution before it starts (stall watchdog of the framework).
var Beat func(scenario string, prefix []int)

// RunOnce executes the scenario with the given choice prefix.
func RunOnce(sc *Scenario, prefix []int, bound int, cache *vsched.Cache, trace bool) (*vsched.Sched, any) {
	var obs any
	if Beat != nil {
		Beat(sc.Name, prefix)
	}
	s := vsched.Run(vsched.Config{Prefix: prefix, Bound: bound, Cache: cache, Trace: trace, EnvBudgets: sc.EnvBudgets, MaxSteps: sc.MaxSteps}, func() {
		obs = sc.Body()
	})
	return s, obs
}

// Explore runs the search.
func Explore(sc *Scenario, opt Options) *Stats {
	st := &Stats{Scenario: sc.Name, Bound: opt.Bound, Outcomes: map[string]int{}, Exhaustive: true}
	e := &explorer{sc: sc, opt: opt, st: st}
	if opt.Cache {
		e.cache = vsched.NewCache()
	}
	if opt.NShards == 0 {
		e.opt.NShards = 1
	}
	if e.opt.MaxViol == 0 {
		e.opt.MaxViol = 20
	}
	t0 := time.Now()
	e.explore(nil, 0)
	if e.cache != nil {
		st.States = e.cache.Len()
	}
	// replay self-check: the root execution twice, identical outcome and decisions
	if opt.Shard == 0 {
		a, ao := RunOnce(sc, nil, opt.Bound, nil, true)
		b, bo := RunOnce(sc, nil, opt.Bound, nil, true)
		ka, kb := a.Out.String(), b.Out.String()
		if a.Out == vsched.OK && b.Out == vsched.OK {
			ka, _ = sc.Check(a, ao)
			kb, _ = sc.Check(b, bo)
		}
		st.ReplayOK = ka == kb && fmt.Sprint(a.Choices) == fmt.Sprint(b.Choices) && fmt.Sprint(a.Trace) == fmt.Sprint(b.Trace)
		if len(a.Trace) > 60 {
			st.Sample = append(a.Trace[:30:30], a.Trace[len(a.Trace)-30:]...)
		} else {
			st.Sample = a.Trace
		}
	} else {
		st.ReplayOK = true
	}
	st.WallS = time.Since(t0).Seconds()
	return st
}

func (e *explorer) explore(prefix []int, depth int) {
	if e.stop {
		return
	}
	if !e.opt.Deadline.IsZero() && time.Now().After(e.opt.Deadline) {
		e.st.Exhaustive = false
		e.stop = true
		return
	}
	s, obs := RunOnce(e.sc, prefix, e.opt.Bound, e.cache, false)
	st := e.st
	if depth == 0 && e.opt.Shard != 0 {
		st = &Stats{Outcomes: map[string]int{}} // the root execution is accounted for by shard 0
	}
	st.Executions++
	st.Points += len(s.Points) - len(prefix)
	st.Steps += s.Steps
	if len(s.Choices) > st.MaxDepth {
		st.MaxDepth = len(s.Choices)
	}
	switch s.Out {
	case vsched.Cached:
		st.Cached++
	case vsched.Diverged:
		e.addViolation(s, prefix, "diverged", "HARNESS: "+s.Detail)
	default:
		st.Complete++
		if s.Conflicts > 0 {
			st.Conflicts++
		}
		var key, problem string
		if s.Out != vsched.OK {
			// first line = class (fingerprint): outcome + canonical set of blocked operations
			key, problem = s.Out.String(), s.Out.String()+" ["+s.Class+"]\n"+s.Detail
		} else {
			key, problem = e.sc.Check(s, obs)
		}
		st.Outcomes[key]++
		if problem != "" && st == e.st {
			e.addViolation(s, s.Choices, key, problem)
		}
	}
	// branch
	for i := len(prefix); i < len(s.Points); i++ {
		p := s.Points[i]
		for c := 1; c < p.N; c++ {
			if e.opt.Bound >= 0 && p.CumCost+p.Costs[c] > e.opt.Bound {
				continue
			}
			if e.cache != nil && c < len(p.PostKeys) && !noPredict {
				rem := 1 << 20
				if e.opt.Bound >= 0 {
					rem = e.opt.Bound - (p.CumCost + p.Costs[c])
				}
				if e.cache.PostSeen(p.PostKeys[c], rem) {
					e.st.Skipped++
					continue
				}
			}
			if depth == 0 {
				// level-1 subtree: sharding unit
				u := e.unit
				e.unit++
				if u%e.opt.NShards != e.opt.Shard {
					continue
				}
			}
			np := make([]int, i+1)
			copy(np, s.Choices[:i])
			np[i] = c
			e.explore(np, depth+1)
			if e.stop {
				return
			}
		}
	}
}

func (e *explorer) addViolation(s *vsched.Sched, choices []int, key, problem string) {
	if len(e.st.Violations) >= e.opt.MaxViol {
		return
	}
	v := Violation{Scenario: e.sc.Name, Choices: append([]int(nil), choices...), Outcome: key, Problem: problem}
	// determinism obligation: replay three times, identical outcome
	stable := true
	var tr []string
	for k := 0; k < 3; k++ {
		r, ro := RunOnce(e.sc, v.Choices, -1, nil, true)
		var k2, p2 string
		if r.Out != vsched.OK {
			k2, p2 = r.Out.String(), r.Out.String()+" ["+r.Class+"]\n"+r.Detail
		} else {
			k2, p2 = e.sc.Check(r, ro)
		}
		if k2 != key || (p2 == "") != (problem == "") {
			stable = false
		}
		tr = r.Trace
		v.Cost = 0
		for i, c := range r.Choices {
			if i < len(r.Points) {
				v.Cost += r.Points[i].Costs[c]
			}
		}
	}
	if !stable {
		e.st.Unstable++
		return
	}
	if len(tr) > 400 {
		tr = tr[len(tr)-400:]
	}
	v.Trace = tr
	e.st.Violations = append(e.st.Violations, v)
	if e.opt.StopAtFirst {
		e.stop = true
	}
}

// Merge adds b into a (shard results).
func Merge(a, b *Stats) {
	a.Executions += b.Executions
	a.Complete += b.Complete
	a.Cached += b.Cached
	a.Skipped += b.Skipped
	a.Points += b.Points
	a.Steps += b.Steps
	a.States += b.States
	a.Conflicts += b.Conflicts
	a.Unstable += b.Unstable
	if b.MaxDepth > a.MaxDepth {
		a.MaxDepth = b.MaxDepth
	}
	for k, v := range b.Outcomes {
		a.Outcomes[k] += v
	}
	a.Exhaustive = a.Exhaustive && b.Exhaustive
	a.Violations = append(a.Violations, b.Violations...)
	if b.WallS > a.WallS {
		a.WallS = b.WallS
	}
	if len(b.Sample) > 0 {
		a.Sample = b.Sample
	}
	a.ReplayOK = a.ReplayOK && b.ReplayOK
}
