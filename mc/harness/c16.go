package harness

import (
	"context"
	"fmt"
	"os"
	"path/filepath"
	"reflect"
	"sort"
	"strings"
	"time"

	"github.com/KevoDB/kevo/pkg/engine"
	"github.com/KevoDB/kevo/pkg/engine/storage"
	"github.com/KevoDB/kevo/pkg/grpc/service"
	"github.com/KevoDB/kevo/pkg/replication"
	"github.com/KevoDB/kevo/pkg/transaction"
	"github.com/KevoDB/kevo/pkg/wal"
	"github.com/KevoDB/kevo/pkg/zzverif/vsched"
	pb "github.com/KevoDB/kevo/proto/kevo"
	"verif/mc/explore"
	"verif/mc/fw"
)

// C16 — a replica refuses client writes but keeps applying replicated ones.

type c16Call struct {
	Name   string // "Engine.Put", "Service.Put", ...
	Bypass bool   // documented bypass of the read-only check (replication apply path, SetReadOnly itself)
	Run    func(e *engine.EngineFacade, s *service.KevoServiceServer) error
}

func c16Calls() []c16Call {
	k := func(s string) []byte { return []byte(s) }
	ctx := context.Background()
	txDo := func(f func(tx interface {
		Put(k, v []byte) error
		Delete(k []byte) error
	}) error) func(e *engine.EngineFacade, s *service.KevoServiceServer) error {
		return func(e *engine.EngineFacade, s *service.KevoServiceServer) error {
			tx, err := e.BeginTransaction(false)
			if err != nil {
				return err
			}
			if err := f(tx); err != nil {
				tx.Rollback()
				return err
			}
			return tx.Commit()
		}
	}
	svcTx := func(f func(s *service.KevoServiceServer, id string) error) func(e *engine.EngineFacade, s *service.KevoServiceServer) error {
		return func(e *engine.EngineFacade, s *service.KevoServiceServer) error {
			b, err := s.BeginTransaction(ctx, &pb.BeginTransactionRequest{ReadOnly: false})
			if err != nil {
				return err
			}
			if err := f(s, b.TransactionId); err != nil {
				s.RollbackTransaction(ctx, &pb.RollbackTransactionRequest{TransactionId: b.TransactionId})
				return err
			}
			_, err = s.CommitTransaction(ctx, &pb.CommitTransactionRequest{TransactionId: b.TransactionId})
			return err
		}
	}
	return []c16Call{
		{Name: "Engine.Put", Run: func(e *engine.EngineFacade, s *service.KevoServiceServer) error { return e.Put(k("n"), k("1")) }},
		{Name: "Engine.Delete", Run: func(e *engine.EngineFacade, s *service.KevoServiceServer) error { return e.Delete(k("a")) }},
		{Name: "Engine.ApplyBatch", Run: func(e *engine.EngineFacade, s *service.KevoServiceServer) error {
			return e.ApplyBatch([]*wal.Entry{{Type: wal.OpTypePut, Key: k("n"), Value: k("2")}, {Type: wal.OpTypeDelete, Key: k("a")}})
		}},
		// batch shapes: a batch of one may take another path than a batch of several
		{Name: "Engine.ApplyBatch/one-put-new", Run: func(e *engine.EngineFacade, s *service.KevoServiceServer) error {
			return e.ApplyBatch([]*wal.Entry{{Type: wal.OpTypePut, Key: k("n"), Value: k("2")}})
		}},
		{Name: "Engine.ApplyBatch/one-put-existing", Run: func(e *engine.EngineFacade, s *service.KevoServiceServer) error {
			return e.ApplyBatch([]*wal.Entry{{Type: wal.OpTypePut, Key: k("a"), Value: k("2")}})
		}},
		{Name: "Engine.ApplyBatch/one-delete", Run: func(e *engine.EngineFacade, s *service.KevoServiceServer) error {
			return e.ApplyBatch([]*wal.Entry{{Type: wal.OpTypeDelete, Key: k("a")}})
		}},
		{Name: "Engine.ApplyBatch/three", Run: func(e *engine.EngineFacade, s *service.KevoServiceServer) error {
			return e.ApplyBatch([]*wal.Entry{{Type: wal.OpTypeDelete, Key: k("b")}, {Type: wal.OpTypePut, Key: k("n"), Value: k("2")}, {Type: wal.OpTypePut, Key: k("n"), Value: k("3")}})
		}},
		{Name: "Engine.BeginTransaction", Run: txDo(func(tx interface {
			Put(k, v []byte) error
			Delete(k []byte) error
		}) error {
			return tx.Put(k("n"), k("3"))
		})},
		{Name: "Tx.Put", Run: txDo(func(tx interface {
			Put(k, v []byte) error
			Delete(k []byte) error
		}) error {
			return tx.Put(k("a"), k("4"))
		})},
		{Name: "Tx.Delete", Run: txDo(func(tx interface {
			Put(k, v []byte) error
			Delete(k []byte) error
		}) error {
			return tx.Delete(k("a"))
		})},
		{Name: "Engine.PutInternal", Bypass: true, Run: func(e *engine.EngineFacade, s *service.KevoServiceServer) error { return e.PutInternal(k("n"), k("5")) }},
		{Name: "Engine.DeleteInternal", Bypass: true, Run: func(e *engine.EngineFacade, s *service.KevoServiceServer) error { return e.DeleteInternal(k("a")) }},
		{Name: "Engine.ApplyBatchInternal", Bypass: true, Run: func(e *engine.EngineFacade, s *service.KevoServiceServer) error {
			return e.ApplyBatchInternal([]*wal.Entry{{Type: wal.OpTypePut, Key: k("n"), Value: k("6")}})
		}},
		{Name: "Engine.FlushImMemTables", Run: func(e *engine.EngineFacade, s *service.KevoServiceServer) error { return e.FlushImMemTables() }},
		{Name: "Engine.TriggerCompaction", Run: func(e *engine.EngineFacade, s *service.KevoServiceServer) error { return e.TriggerCompaction() }},
		{Name: "Engine.CompactRange", Run: func(e *engine.EngineFacade, s *service.KevoServiceServer) error { return e.CompactRange(nil, nil) }},
		{Name: "Engine.Get", Run: func(e *engine.EngineFacade, s *service.KevoServiceServer) error { _, err := e.Get(k("a")); return err }},
		{Name: "Engine.IsDeleted", Run: func(e *engine.EngineFacade, s *service.KevoServiceServer) error { _, err := e.IsDeleted(k("a")); return err }},
		{Name: "Engine.GetIterator", Run: func(e *engine.EngineFacade, s *service.KevoServiceServer) error {
			it, err := e.GetIterator()
			if err == nil {
				iterAll(it)
			}
			return err
		}},
		{Name: "Engine.GetRangeIterator", Run: func(e *engine.EngineFacade, s *service.KevoServiceServer) error {
			it, err := e.GetRangeIterator(k("a"), k("z"))
			if err == nil {
				iterAll(it)
			}
			return err
		}},
		{Name: "Engine.GetStats", Run: func(e *engine.EngineFacade, s *service.KevoServiceServer) error { e.GetStats(); _, err := e.GetCompactionStats(); return err }},
		{Name: "Service.Put", Run: func(e *engine.EngineFacade, s *service.KevoServiceServer) error {
			_, err := s.Put(ctx, &pb.PutRequest{Key: k("n"), Value: k("7")})
			return err
		}},
		{Name: "Service.Delete", Run: func(e *engine.EngineFacade, s *service.KevoServiceServer) error {
			_, err := s.Delete(ctx, &pb.DeleteRequest{Key: k("a")})
			return err
		}},
		{Name: "Service.BatchWrite", Run: func(e *engine.EngineFacade, s *service.KevoServiceServer) error {
			_, err := s.BatchWrite(ctx, &pb.BatchWriteRequest{Operations: []*pb.Operation{{Type: pb.Operation_PUT, Key: k("n"), Value: k("8")}, {Type: pb.Operation_DELETE, Key: k("a")}}})
			return err
		}},
		{Name: "Service.BatchWrite/one-put", Run: func(e *engine.EngineFacade, s *service.KevoServiceServer) error {
			_, err := s.BatchWrite(ctx, &pb.BatchWriteRequest{Operations: []*pb.Operation{{Type: pb.Operation_PUT, Key: k("n"), Value: k("8")}}})
			return err
		}},
		{Name: "Service.BatchWrite/one-delete", Run: func(e *engine.EngineFacade, s *service.KevoServiceServer) error {
			_, err := s.BatchWrite(ctx, &pb.BatchWriteRequest{Operations: []*pb.Operation{{Type: pb.Operation_DELETE, Key: k("a")}}})
			return err
		}},
		{Name: "Service.TxPut", Run: svcTx(func(s *service.KevoServiceServer, id string) error {
			_, err := s.TxPut(ctx, &pb.TxPutRequest{TransactionId: id, Key: k("n"), Value: k("9")})
			return err
		})},
		{Name: "Service.TxDelete", Run: svcTx(func(s *service.KevoServiceServer, id string) error {
			_, err := s.TxDelete(ctx, &pb.TxDeleteRequest{TransactionId: id, Key: k("a")})
			return err
		})},
		{Name: "Service.Compact", Run: func(e *engine.EngineFacade, s *service.KevoServiceServer) error {
			_, err := s.Compact(ctx, &pb.CompactRequest{Force: true})
			return err
		}},
		{Name: "Service.Get", Run: func(e *engine.EngineFacade, s *service.KevoServiceServer) error {
			r, err := s.Get(ctx, &pb.GetRequest{Key: k("a")})
			if err == nil && !r.Found {
				return fmt.Errorf("Get(a) not found")
			}
			return err
		}},
		{Name: "Service.Scan", Run: func(e *engine.EngineFacade, s *service.KevoServiceServer) error {
			st := &fakeStream[pb.ScanResponse]{}
			err := s.Scan(&pb.ScanRequest{}, st)
			if err == nil && len(st.out) == 0 {
				return fmt.Errorf("Scan returned nothing")
			}
			return err
		}},
		{Name: "Service.GetStats", Run: func(e *engine.EngineFacade, s *service.KevoServiceServer) error {
			_, err := s.GetStats(ctx, &pb.GetStatsRequest{})
			return err
		}},
		{Name: "Service.GetNodeInfo", Run: func(e *engine.EngineFacade, s *service.KevoServiceServer) error {
			_, err := s.GetNodeInfo(ctx, &pb.GetNodeInfoRequest{})
			return err
		}},
	}
}

var c16Excluded = map[string]string{
	"Engine.Close": "lifecycle", "Engine.SetReadOnly": "the switch itself", "Engine.IsReadOnly": "getter", "Engine.GetWAL": "getter", "Engine.GetRWLock": "getter",
	"Engine.GetTransactionManager": "getter", "Engine.IncrementTxCompleted": "counter", "Engine.IncrementTxAborted": "counter", "Engine.GetCompactionStats": "in Engine.GetStats",
	"Engine.VerifStorage": "export", "Engine.VerifCompaction": "export", "Engine.VerifConfig": "export",
	"Tx.Get": "read inside Engine.BeginTransaction body of C07/C04", "Tx.NewIterator": "read", "Tx.NewRangeIterator": "read", "Tx.Commit": "in transaction bodies", "Tx.Rollback": "in transaction bodies", "Tx.IsReadOnly": "getter",
	"Service.BeginTransaction": "in Service.TxPut", "Service.CommitTransaction": "in Service.TxPut", "Service.RollbackTransaction": "in Service.TxPut", "Service.TxGet": "read by handle (C19)", "Service.TxScan": "read by handle (C19)",
	"Service.CleanupConnection": "connection lifecycle", "Service.mustEmbedUnimplementedKevoServiceServer": "generated",
}

func c16Uncovered() []string {
	have := map[string]bool{}
	for _, c := range c16Calls() {
		have[c.Name] = true
	}
	var missing []string
	check := func(prefix string, t reflect.Type) {
		for i := 0; i < t.NumMethod(); i++ {
			n := prefix + "." + t.Method(i).Name
			if !have[n] && c16Excluded[n] == "" {
				missing = append(missing, n)
			}
		}
	}
	check("Engine", reflect.TypeOf(&engine.EngineFacade{}))
	check("Tx", reflect.TypeOf((*transaction.Transaction)(nil)).Elem())
	check("Service", reflect.TypeOf(&service.KevoServiceServer{}))
	sort.Strings(missing)
	return missing
}

type c16Snap struct {
	State string
	Log   int
}

func c16Snapshot(e *engine.EngineFacade) c16Snap {
	var s []string
	if it, err := e.GetIterator(); err == nil {
		for it.SeekToFirst(); it.Valid(); it.Next() {
			if !it.IsTombstone() {
				s = append(s, string(it.Key())+"="+string(it.Value()))
			}
		}
	}
	n := 0
	if w := e.GetWAL(); w != nil {
		if es, err := w.GetEntriesFrom(0); err == nil {
			n = len(es)
		}
	}
	return c16Snap{strings.Join(s, ","), n}
}

// c16SeqUnit: mutator discovery on a read-write twin, rejection on the read-only engine, replicated apply still works.
func c16SeqUnit(unit string, env *fw.Env) *fw.Result {
	res := fw.NewResult()
	if m := c16Uncovered(); len(m) > 0 {
		res.HarnessErr = "entry points without a body: " + strings.Join(m, ", ")
		return res
	}
	dir := fw.Scratch("c16")
	defer os.RemoveAll(dir)
	viol := func(class, detail string, call string) {
		res.Violate(fw.FP("C16", class, call), class+"\n"+detail, unit, map[string]any{"kind": "call", "call": call})
	}
	for _, c := range c16Calls() {
		c := c
		var problem, class string
		isMut := false
		run := func(readOnly bool) (before, after c16Snap, callErr error, ok bool) {
			d := filepath.Join(dir, fmt.Sprintf("db-%v", readOnly))
			os.RemoveAll(d)
			s := vsched.Run(vsched.Config{Bound: 0, NoEnv: true, MaxSteps: 3_000_000}, func() {
				r, err := newEngRun(d, EngCfg{"c16", 32 << 20, 2, 2, 0})
				if err != nil {
					return
				}
				defer r.Close()
				r.Eng.Put([]byte("a"), []byte("a0"))
				r.Eng.Put([]byte("b"), []byte("b0"))
				sm := r.Eng.VerifStorage().(*storage.Manager)
				sm.VerifSwitch()
				vsched.Quiesce()
				r.Eng.Put([]byte("c"), []byte("c0"))
				sm.VerifSwitch()
				vsched.Quiesce()
				r.Eng.Put([]byte("a"), []byte("a1"))
				srv := service.NewKevoServiceServer(r.Eng, transaction.NewRegistry(), nil)
				if readOnly {
					r.Eng.SetReadOnly(true)
				}
				before = c16Snapshot(r.Eng)
				callErr = c.Run(r.Eng, srv)
				after = c16Snapshot(r.Eng)
				ok = true
			})
			if s.Out != vsched.OK {
				ok = false
				problem, class = s.Out.String()+": "+s.Detail, s.Out.String()
			}
			return
		}
		b, a, errRW, ok := run(false)
		if !ok {
			viol("harness-or-engine-failure", c.Name+" on the read-write twin: "+problem, c.Name)
			continue
		}
		isMut = b != a
		_ = errRW
		b2, a2, errRO, ok := run(true)
		res.Evaluations++
		res.Nontrivial++
		if !ok {
			viol(class, c.Name+" on the read-only engine: "+problem, c.Name)
			continue
		}
		res.Count("entry_points", 1)
		switch {
		case isMut && !c.Bypass:
			res.Count("mutators_found", 1)
			if errRO == nil {
				viol("mutation-accepted-on-replica", fmt.Sprintf("%s changes data on a read-write engine but returned no error on a read-only (replica) engine", c.Name), c.Name)
			} else if !strings.Contains(strings.ToLower(errRO.Error()), "read-only") && !strings.Contains(strings.ToLower(errRO.Error()), "read only") {
				viol("rejection-not-read-only-error", fmt.Sprintf("%s was rejected on the replica with %q, which is not a read-only error", c.Name, errRO.Error()), c.Name)
			}
			if b2 != a2 {
				viol("replica-data-changed", fmt.Sprintf("%s changed the replica: state %q -> %q, log entries %d -> %d", c.Name, b2.State, a2.State, b2.Log, a2.Log), c.Name)
			}
		case isMut && c.Bypass:
			if errRO != nil || b2 == a2 {
				viol("replicated-apply-refused", fmt.Sprintf("%s (replication apply path) on a read-only engine: err=%v changed=%v", c.Name, errRO, b2 != a2), c.Name)
			}
		default:
			if errRO != nil && !isNotFound(errRO) {
				viol("read-failed-on-replica", fmt.Sprintf("%s does not change data but failed on the read-only engine: %v", c.Name, errRO), c.Name)
			}
			if b2 != a2 {
				viol("replica-data-changed", fmt.Sprintf("%s changed the replica although it does not change a read-write engine", c.Name), c.Name)
			}
		}
		if len(res.Samples) < 3 {
			res.Sample(map[string]any{"call": c.Name, "mutator": isMut, "bypass": c.Bypass, "replica_error": fmt.Sprint(errRO)})
		}
	}
	return res
}

// schedules: the replication applier against a client mutator on a read-only engine
func c16Scenarios() []*explore.Scenario {
	mk := func(name string, client func(e *engine.EngineFacade, s *service.KevoServiceServer) error) *explore.Scenario {
		return &explore.Scenario{Name: name, MaxSteps: 3_000_000,
			Body: func() any {
				dir := filepath.Join(fw.ProcDir("c16s"), "db")
				r, err := newEngRun(dir, engCfgs["big"])
				if err != nil {
					return "open: " + err.Error()
				}
				defer r.Close()
				r.Eng.Put([]byte("a"), []byte("a0"))
				r.Eng.SetReadOnly(true)
				srv := service.NewKevoServiceServer(r.Eng, transaction.NewRegistry(), nil)
				ap := replication.NewEngineApplier(r.Eng)
				var applyErr, clientErr error
				t1 := vsched.GoNamed("APPLY", func() {
					if err := ap.Apply(&wal.Entry{SequenceNumber: 2, Type: wal.OpTypePut, Key: []byte("r"), Value: []byte("r1")}); err != nil {
						applyErr = err
					}
					if err := ap.Apply(&wal.Entry{SequenceNumber: 3, Type: wal.OpTypeDelete, Key: []byte("a")}); err != nil {
						applyErr = err
					}
					// the replica ends every applied batch with the applier's sync step (flush of the memtables)
					if err := ap.Sync(); err != nil {
						applyErr = err
					}
				})
				t2 := vsched.GoNamed("CLIENT", func() { clientErr = client(r.Eng, srv) })
				vsched.Join(t1)
				vsched.Join(t2)
				if applyErr != nil {
					return "replicated-apply-failed\n" + applyErr.Error()
				}
				if clientErr == nil {
					return "mutation-accepted-on-replica\nclient mutation succeeded while replication was applying"
				}
				got := c16Snapshot(r.Eng).State
				if got != "r=r1" {
					return "replica-state-wrong\nstate " + got + ", expected r=r1"
				}
				if !r.Eng.IsReadOnly() {
					return "read-only-flag-lost\nthe engine is no longer read-only after applying replicated entries"
				}
				return ""
			},
			Check: func(s *vsched.Sched, o any) (string, string) {
				if p := o.(string); p != "" {
					return firstLine(p), p
				}
				return "ok", ""
			}}
	}
	// a client transaction stays open on the replica for the whole time: replication apply must get through (and
	// the transaction keeps reading) - nothing of the client's may hold up the applier
	openTx := &explore.Scenario{Name: "apply-while-client-tx-open", MaxSteps: 3_000_000,
		Body: func() any {
			dir := filepath.Join(fw.ProcDir("c16s"), "db")
			r, err := newEngRun(dir, engCfgs["big"])
			if err != nil {
				return "open: " + err.Error()
			}
			defer r.Close()
			r.Eng.Put([]byte("a"), []byte("a0"))
			r.Eng.SetReadOnly(true)
			ap := replication.NewEngineApplier(r.Eng)
			tx, err := r.Eng.BeginTransaction(true)
			if err != nil {
				return "client-begin-failed\n" + err.Error()
			}
			var applyErr error
			readErr := ""
			t1 := vsched.GoNamed("APPLY", func() {
				if err := ap.Apply(&wal.Entry{SequenceNumber: 2, Type: wal.OpTypePut, Key: []byte("r"), Value: []byte("r1")}); err != nil {
					applyErr = err
				}
				if err := ap.Apply(&wal.Entry{SequenceNumber: 3, Type: wal.OpTypeDelete, Key: []byte("a")}); err != nil {
					applyErr = err
				}
			})
			t2 := vsched.GoNamed("CLIENT", func() {
				if _, err := tx.Get([]byte("a")); err != nil && !isNotFound(err) {
					readErr = err.Error()
				}
				it := tx.NewIterator()
				for it.SeekToFirst(); it.Valid(); it.Next() {
				}
			})
			vsched.Join(t1) // the transaction is still open here
			vsched.Join(t2)
			tx.Rollback()
			if applyErr != nil {
				return "replicated-apply-failed\n" + applyErr.Error()
			}
			if readErr != "" {
				return "replica-read-failed\n" + readErr
			}
			if got := c16Snapshot(r.Eng).State; got != "r=r1" {
				return "replica-state-wrong\nstate " + got + ", expected r=r1"
			}
			return ""
		},
		Check: func(s *vsched.Sched, o any) (string, string) {
			if p := o.(string); p != "" {
				return firstLine(p), p
			}
			return "ok", ""
		}}
	ctx := context.Background()
	return []*explore.Scenario{
		openTx,
		mk("apply-vs-put", func(e *engine.EngineFacade, s *service.KevoServiceServer) error { return e.Put([]byte("x"), []byte("1")) }),
		mk("apply-vs-delete", func(e *engine.EngineFacade, s *service.KevoServiceServer) error { return e.Delete([]byte("r")) }),
		mk("apply-vs-batchwrite", func(e *engine.EngineFacade, s *service.KevoServiceServer) error {
			_, err := s.BatchWrite(ctx, &pb.BatchWriteRequest{Operations: []*pb.Operation{{Type: pb.Operation_PUT, Key: []byte("x"), Value: []byte("1")}}})
			return err
		}),
	}
}

// node info in the three modes (free running: the manager starts real listeners)
func c16ManagerUnit(unit string, env *fw.Env) *fw.Result {
	res := fw.NewResult()
	dir := fw.Scratch("c16m")
	defer os.RemoveAll(dir)
	viol := func(class, detail, mode string) {
		res.Violate(fw.FP("C16", class, mode), class+"\n"+detail, unit, map[string]any{"kind": "manager", "mode": mode})
	}
	for _, mode := range []string{"standalone", "primary", "replica"} {
		e, err := engine.NewEngineFacade(filepath.Join(dir, mode))
		if err != nil {
			res.HarnessErr = err.Error()
			return res
		}
		cfg := replication.DefaultManagerConfig()
		cfg.Enabled = mode != "standalone"
		cfg.Mode = mode
		cfg.ListenAddr = "127.0.0.1:0"
		cfg.PrimaryAddr = "127.0.0.1:1"
		cfg.ReplicaConfig.Connection.DialTimeout = 20 * time.Millisecond
		cfg.ReplicaConfig.Connection.RetryBaseDelay = 10 * time.Millisecond
		m, err := replication.NewManager(e, cfg)
		if err != nil {
			viol("manager-failed", mode+": "+err.Error(), mode)
			e.Close()
			continue
		}
		if err := m.Start(); err != nil {
			viol("manager-failed", mode+" start: "+err.Error(), mode)
		}
		res.Evaluations++
		res.Nontrivial++
		srv := service.NewKevoServiceServer(e, transaction.NewRegistry(), m)
		ni, err := srv.GetNodeInfo(context.Background(), &pb.GetNodeInfoRequest{})
		wantRole := map[string]pb.GetNodeInfoResponse_NodeRole{"standalone": pb.GetNodeInfoResponse_STANDALONE, "primary": pb.GetNodeInfoResponse_PRIMARY, "replica": pb.GetNodeInfoResponse_REPLICA}[mode]
		if err != nil || ni.NodeRole != wantRole {
			viol("node-info-role", fmt.Sprintf("%s node reports role %v (err %v)", mode, ni.GetNodeRole(), err), mode)
		}
		if ni != nil && ni.ReadOnly != e.IsReadOnly() {
			viol("node-info-read-only", fmt.Sprintf("%s node reports read_only=%v, engine read-only=%v", mode, ni.ReadOnly, e.IsReadOnly()), mode)
		}
		if mode == "replica" {
			if ni != nil && ni.PrimaryAddress != "127.0.0.1:1" {
				viol("node-info-primary-address", fmt.Sprintf("replica reports primary address %q, configured 127.0.0.1:1", ni.PrimaryAddress), mode)
			}
			if !e.IsReadOnly() {
				viol("replica-not-read-only", "after Manager.Start returned in replica mode the engine accepts client writes", mode)
			}
			if err := e.Put([]byte("x"), []byte("1")); err == nil {
				viol("mutation-accepted-on-replica", "Put succeeded on a node started as replica", mode)
			}
			if _, err := srv.Put(context.Background(), &pb.PutRequest{Key: []byte("x"), Value: []byte("1")}); err == nil {
				viol("mutation-accepted-on-replica", "service Put succeeded on a node started as replica", mode)
			}
		} else if e.IsReadOnly() {
			viol("non-replica-read-only", mode+" node is read-only", mode)
		}
		// the reported status follows the engine's flag in every role (an embedding application may switch it)
		for _, ro := range []bool{!e.IsReadOnly(), e.IsReadOnly()} {
			e.SetReadOnly(ro)
			ni2, err := srv.GetNodeInfo(context.Background(), &pb.GetNodeInfoRequest{})
			_, perr := srv.Put(context.Background(), &pb.PutRequest{Key: []byte("probe"), Value: []byte("1")})
			res.Evaluations++
			if err != nil || ni2.ReadOnly != ro || ni2.ReadOnly != (perr != nil) {
				viol("node-info-read-only", fmt.Sprintf("%s node with the engine's read-only flag set to %v reports read_only=%v (err %v); a client Put was refused: %v", mode, ro, ni2.GetReadOnly(), err, perr != nil), mode)
			}
		}
		m.Stop()
		// stopping replication does not turn the node into something else: as long as it presents itself as a
		// replica (server shutdown, operator restart of replication) client writes stay refused
		if mode == "replica" {
			ni3, err := srv.GetNodeInfo(context.Background(), &pb.GetNodeInfoRequest{})
			_, perr := srv.Put(context.Background(), &pb.PutRequest{Key: []byte("after-stop"), Value: []byte("1")})
			res.Evaluations++
			if err == nil && ni3.NodeRole == pb.GetNodeInfoResponse_REPLICA && perr == nil {
				viol("mutation-accepted-on-replica", "after Manager.Stop the node still reports role replica, and a client Put was accepted", mode)
			}
		}
		e.Close()
		res.Sample(map[string]any{"mode": mode, "role": fmt.Sprint(ni.GetNodeRole()), "read_only": ni.GetReadOnly(), "primary_address": ni.GetPrimaryAddress()})
	}
	return res
}

func init() {
	fw.Register(&fw.Check{
		ID:    "C16",
		Level: "model_checking",
		Rule: "(A) the mutator set is computed: every entry point of *EngineFacade, transaction.Transaction and *KevoServiceServer (method sets by reflection; a method with neither a body nor a recorded exclusion is a HARNESS-ERROR) is invoked on a read-write twin holding data in 2 SSTables and the memtable; a call after which the scan or the log entries differ is a mutator. On the same state with SetReadOnly(true): every mutator except the *Internal replication bypasses must return a read-only error and leave scan and log unchanged; the bypasses must still take effect; non-mutators must succeed. " +
			"(B) schedules: EngineApplier.Apply of 2 replicated entries followed by the applier's Sync (the replica's whole apply cycle) against a client Put / Delete / BatchWrite, and while a client's read-only transaction stays open and reads (the apply must complete before the transaction ends), all interleavings up to the deviation bound (2 quick, 3 thorough): client always rejected, both entries applied, final state = replicated entries only, read-only flag intact. (C) replication.Manager started in standalone / primary / replica mode: GetNodeInfo reports role, primary address and read_only equal to the configured truth, and read_only follows the engine's flag (and what a client Put experiences) when the flag is switched in either direction; after Start returned in replica mode client writes are rejected, and still are after the manager was stopped while the node reports the replica role. Non-trivial = entry points evaluated / executions with a cross-thread conflict",
		Assumptions: []string{"the window inside Manager.Start (replica started before the engine is switched to read-only) is not part of 'running as a replica' and is not flagged", "the manager unit runs free (real listeners on loopback)"},
		Units: func(tier string) []string {
			us := []string{"seq", "manager"}
			b := 2
			if tier == "thorough" {
				b = 3
			}
			for _, sc := range c16Scenarios() {
				us = append(us, shardUnits(sc.Name, b, 4)...)
			}
			us = append(us, raceUnits(c16Scenarios(), nil)...)
			return us
		},
		ExeFor: raceExe,
		Run: func(unit string, env *fw.Env) *fw.Result {
			switch unit {
			case "seq":
				return c16SeqUnit(unit, env)
			case "manager":
				return c16ManagerUnit(unit, env)
			}
			if strings.HasPrefix(unit, "race/") {
				return raceRun("C16", c16Scenarios(), unit, env)
			}
			sp := parseSched(unit)
			for _, sc := range c16Scenarios() {
				if sc.Name == sp.Name {
					return runSched("C16", sc, sp, env, 1)
				}
			}
			r := fw.NewResult()
			r.HarnessErr = "unknown unit " + unit
			return r
		},
		Replay: func(v *fw.Violation) string {
			if w, ok := v.Witness.(map[string]any); ok && w["kind"] == "schedule" {
				return replaySched(FindScenario, v)
			}
			return fmt.Sprintf("re-run: kvcheck one C16 quick %s\nwitness: %v", v.Unit, v.Witness)
		},
		BudgetQuick: 110, BudgetThorough: 600,
	})
}
