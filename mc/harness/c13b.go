package harness

import (
	"context"
	"fmt"
	"strings"

	"github.com/KevoDB/kevo/pkg/replication"
	"github.com/KevoDB/kevo/pkg/wal"
	rp "github.com/KevoDB/kevo/proto/kevo/replication"
	"google.golang.org/grpc"
	"verif/mc/fw"
)

// C13, part B — every delivery sequence. The runs of part A go through the real primary, which on this tree
// hands a replica one batch per connection starting at the sequence it asked for; whatever the link does, a batch
// that starts below the replica's position hardly ever reaches the applier there. The property quantifies over
// "whatever the batching, duplicate or out-of-order delivery, retransmission": here the messages are chosen by
// the enumeration instead. Explicit-state search: a state is (entries applied so far, expected-next, reported
// sequence) of the real WALBatchApplier / the real Replica message handler; a transition delivers one batch
// [i..j] of the primary's history (every contiguous run of whole sequences, built with the real wire encoding).

type delivHistory struct {
	ents  []*wal.Entry // in log order
	first map[uint64]int
	last  map[uint64]int
	seqs  []uint64
}

func delivHist() *delivHistory {
	h := &delivHistory{first: map[uint64]int{}, last: map[uint64]int{}}
	add := func(seq uint64, typ uint8, k, v string) {
		var val []byte
		if typ == wal.OpTypePut {
			val = []byte(v)
		}
		h.ents = append(h.ents, &wal.Entry{SequenceNumber: seq, Type: typ, Key: []byte(k), Value: val})
	}
	add(1, wal.OpTypePut, "a", "a1")
	add(2, wal.OpTypePut, "b", "b1")
	// one transaction: its entries share a sequence number
	add(3, wal.OpTypePut, "c", "c1")
	add(3, wal.OpTypeDelete, "a", "")
	add(4, wal.OpTypePut, "a", "a2")
	add(5, wal.OpTypeDelete, "b", "")
	for i, e := range h.ents {
		if _, ok := h.first[e.SequenceNumber]; !ok {
			h.first[e.SequenceNumber] = i
			h.seqs = append(h.seqs, e.SequenceNumber)
		}
		h.last[e.SequenceNumber] = i
	}
	return h
}

// FailAt > 0 (target "replica-applyfail" only): while this message is handled, the replica's local applier refuses
// the FailAt-th entry of the message, every time it is offered (an environment answer: the local engine does not
// take the write).
type delivBatch struct {
	From, To uint64
	FailAt   int
}

func (b delivBatch) String() string {
	if b.FailAt > 0 {
		return fmt.Sprintf("[%d..%d, local apply of entry #%d refused]", b.From, b.To, b.FailAt)
	}
	return fmt.Sprintf("[%d..%d]", b.From, b.To)
}

// delivCodec: messages of the "replica-zstd" / "replica-snappy" targets carry compressed payloads (legal in the
// protocol and advertised by replicas; the primary of this tree happens to send everything uncompressed).
var delivCodec = rp.CompressionCodec_NONE
var delivCompressor *replication.CompressionManager

func (h *delivHistory) msg(b delivBatch) *rp.WALStreamResponse {
	m := &rp.WALStreamResponse{}
	defer func() {
		if delivCodec == rp.CompressionCodec_NONE {
			return
		}
		if delivCompressor == nil {
			c, err := replication.NewCompressionManager()
			if err != nil {
				panic(err)
			}
			delivCompressor = c
		}
		for _, e := range m.Entries {
			p, err := delivCompressor.Compress(e.Payload, delivCodec)
			if err != nil {
				panic(err)
			}
			e.Payload = p
		}
		m.Compressed, m.Codec = true, delivCodec
	}()
	for i := h.first[b.From]; i <= h.last[b.To]; i++ {
		pe, err := replication.WALEntryToProto(h.ents[i], rp.FragmentType_FULL)
		if err != nil {
			panic(err)
		}
		m.Entries = append(m.Entries, pe)
	}
	return m
}

// delivTarget is one implementation under the enumeration.
type delivTarget interface {
	deliver(m *rp.WALStreamResponse) error
	reported() uint64
	expected() uint64
	applied() []walEnt
	nacks() []uint64
}

type delivRec struct {
	got    []walEnt
	refuse *wal.Entry // refused while set
}

func (r *delivRec) Apply(e *wal.Entry) error {
	if f := r.refuse; f != nil && f.SequenceNumber == e.SequenceNumber && f.Type == e.Type && string(f.Key) == string(e.Key) {
		return fmt.Errorf("local engine refuses the write")
	}
	r.got = append(r.got, walEnt{Type: e.Type, Key: append([]byte{}, e.Key...), Val: append([]byte{}, e.Value...), Seq: e.SequenceNumber})
	return nil
}
func (r *delivRec) Sync() error { return nil }

type applierTarget struct {
	a   *replication.WALBatchApplier
	rec delivRec
}

func (t *applierTarget) deliver(m *rp.WALStreamResponse) error {
	_, _, err := t.a.ApplyEntries(m.Entries, t.rec.Apply)
	return err
}
func (t *applierTarget) reported() uint64  { return t.a.GetMaxApplied() }
func (t *applierTarget) expected() uint64  { return t.a.GetExpectedNext() }
func (t *applierTarget) applied() []walEnt { return t.rec.got }
func (t *applierTarget) nacks() []uint64   { return nil }

type nackClient struct {
	rp.WALReplicationServiceClient
	got []uint64
}

func (c *nackClient) NegativeAcknowledge(ctx context.Context, in *rp.Nack, opts ...grpc.CallOption) (*rp.NackResponse, error) {
	c.got = append(c.got, in.MissingFromSequence)
	return &rp.NackResponse{Success: true}, nil
}
func (c *nackClient) Acknowledge(ctx context.Context, in *rp.Ack, opts ...grpc.CallOption) (*rp.AckResponse, error) {
	return &rp.AckResponse{Success: true}, nil
}

type replicaTarget struct {
	r   *replication.Replica
	rec *delivRec
	cl  *nackClient
}

func (t *replicaTarget) deliver(m *rp.WALStreamResponse) error { return t.r.VerifDeliver(m) }

// checkAppliedNoHole: with local apply failures a retransmission may legitimately repeat entries; what must still
// hold is that no entry is applied before all entries ahead of it in the primary's order have been applied.
func checkAppliedNoHole(hist, applied []walEnt) (problem string, mask uint64) {
	for i, a := range applied {
		idx := -1
		for j := range hist {
			if sameWal(hist[j], a) {
				idx = j
			}
		}
		if idx < 0 {
			return fmt.Sprintf("entry-altered\napplied entry %d is %v, which the primary never wrote", i, a), mask
		}
		if want := uint64(1)<<idx - 1; mask&want != want {
			return fmt.Sprintf("entry-skipped\napplied entry %d is the primary's entry %d %v, but an earlier entry of the primary was never applied (applied so far: %v)", i, idx, a, applied[:i]), mask
		}
		mask |= 1 << idx
	}
	return "", mask
}
func (t *replicaTarget) reported() uint64                       { return t.r.GetLastAppliedSequence() }
func (t *replicaTarget) expected() uint64                       { return t.r.VerifExpectedNext() }
func (t *replicaTarget) applied() []walEnt                      { return t.rec.got }
func (t *replicaTarget) nacks() []uint64                        { return t.cl.got }

func newDelivTarget(kind string) delivTarget {
	delivCodec = rp.CompressionCodec_NONE
	switch kind {
	case "replica-zstd":
		delivCodec = rp.CompressionCodec_ZSTD
	case "replica-snappy":
		delivCodec = rp.CompressionCodec_SNAPPY
	}
	if kind == "applier" {
		return &applierTarget{a: replication.NewWALBatchApplier(0)}
	}
	rec := &delivRec{}
	r, err := replication.NewReplica(0, rec, replication.DefaultReplicaConfig())
	if err != nil {
		panic(err)
	}
	cl := &nackClient{}
	r.VerifSetClient(cl)
	return &replicaTarget{r: r, rec: rec, cl: cl}
}

func delivUnit(unit string, env *fw.Env) *fw.Result {
	res := fw.NewResult()
	kind := strings.TrimPrefix(unit, "deliveries/")
	h := delivHist()
	var alphabet []delivBatch
	for i, f := range h.seqs {
		for _, t := range h.seqs[i:] {
			alphabet = append(alphabet, delivBatch{From: f, To: t})
		}
	}
	depth := 5
	if env.Thorough {
		depth = 7
	}
	faulty := kind == "replica-applyfail"
	if faulty {
		kind = "replica"
		for _, b := range append([]delivBatch{}, alphabet...) {
			for k := 1; k <= h.last[b.To]-h.first[b.From]+1; k++ {
				alphabet = append(alphabet, delivBatch{b.From, b.To, k})
			}
		}
		depth--
	}
	type node struct{ path []delivBatch }
	seen := map[string]bool{}
	frontier := []node{{}}
	outcomes := map[string]bool{}
	// build replays a path on a fresh instance and checks the property after every delivery
	build := func(path []delivBatch) (key string, problem string) {
		t := newDelivTarget(kind)
		var prevReported uint64
		fkey := ""
		for step, b := range path {
			expBefore := t.expected()
			nBefore := len(t.applied())
			if b.FailAt > 0 {
				t.(*replicaTarget).rec.refuse = h.ents[h.first[b.From]+b.FailAt-1]
			}
			err := t.deliver(h.msg(b))
			ap := t.applied()
			where := fmt.Sprintf("after delivering %v as message %d of %v", b, step+1, path)
			if faulty {
				t.(*replicaTarget).rec.refuse = nil
				p, mask := checkAppliedNoHole(hWal(h), ap)
				if p != "" {
					return "", firstLine(p) + "\n" + where + ": " + strings.SplitN(p, "\n", 2)[1]
				}
				rep := t.reported()
				if rep < prevReported {
					return "", fmt.Sprintf("applied-sequence-decreased\n%s the reported applied sequence went from %d to %d", where, prevReported, rep)
				}
				prevReported = rep
				for i, e := range h.ents {
					if e.SequenceNumber <= rep && mask>>i&1 == 0 {
						return "", fmt.Sprintf("applied-sequence-ahead\n%s the replica reports %d, but the primary's entry %d (sequence %d, key %s) was never applied", where, rep, i, e.SequenceNumber, e.Key)
					}
				}
				if b.FailAt > 0 {
					outcomes["refused"] = true
				}
				if step == len(path)-1 {
					fkey = fmt.Sprintf("%x", mask)
				}
				continue
			}
			if p := checkAppliedPrefix(hWal(h), ap); p != "" {
				return "", firstLine(p) + "\n" + where + ": " + strings.SplitN(p, "\n", 2)[1]
			}
			rep := t.reported()
			if rep < prevReported {
				return "", fmt.Sprintf("applied-sequence-decreased\n%s the reported applied sequence went from %d to %d", where, prevReported, rep)
			}
			var maxApplied uint64
			if len(ap) > 0 {
				maxApplied = ap[len(ap)-1].Seq
			}
			if rep > maxApplied {
				return "", fmt.Sprintf("applied-sequence-ahead\n%s the replica reports %d, the highest entry it applied is %d", where, rep, maxApplied)
			}
			prevReported = rep
			if b.From == expBefore {
				// the batch continues exactly where the replica is: all of it is applied (none skipped)
				want := h.last[b.To] + 1
				if len(ap) != want || err != nil {
					return "", fmt.Sprintf("in-order-batch-not-applied\n%s, which starts at the expected sequence %d: %d entries applied (want %d), error %v", where, expBefore, len(ap), want, err)
				}
				outcomes["applied"] = true
			} else {
				// not the continuation: nothing of it may be applied, and the replica's position is unchanged
				if len(ap) != nBefore {
					return "", fmt.Sprintf("out-of-place-batch-applied\n%s (expected next %d): %d further entries were applied", where, expBefore, len(ap)-nBefore)
				}
				if t.expected() != expBefore {
					return "", fmt.Sprintf("position-moved-by-rejected-batch\n%s the expected sequence went from %d to %d", where, expBefore, t.expected())
				}
				if err == nil {
					outcomes["ignored"] = true
				} else {
					outcomes["rejected"] = true
				}
				if b.From > expBefore && strings.HasPrefix(kind, "replica") {
					// a hole: the replica has to ask for the missing part again
					nk := t.nacks()
					if len(nk) == 0 || nk[len(nk)-1] != expBefore {
						return "", fmt.Sprintf("gap-not-requested\n%s (expected next %d): no retransmission request from %d (requests so far %v)", where, expBefore, expBefore, nk)
					}
				}
			}
		}
		if faulty {
			return fmt.Sprintf("%s/%d/%d", fkey, t.expected(), t.reported()), ""
		}
		return fmt.Sprintf("%d/%d/%d", len(t.applied()), t.expected(), t.reported()), ""
	}
	for d := 0; d <= depth && len(frontier) > 0; d++ {
		var next []node
		for _, n := range frontier {
			if env.Expired() {
				res.Exhaustive = false
				res.Caps = append(res.Caps, fmt.Sprintf("%s: deadline at depth %d", unit, d))
				return res
			}
			for _, b := range alphabet {
				path := append(append([]delivBatch{}, n.path...), b)
				fw.Progress(fmt.Sprintf("c13 deliveries %s %v", kind, path))
				key, problem := build(path)
				res.Evaluations++
				res.Transitions++
				res.Traces++
				if len(path) >= 2 {
					res.Nontrivial++
				}
				if problem != "" {
					res.Violate(fw.FP("C13", "deliveries", firstLine(problem)), fmt.Sprintf("[deliveries to the %s] %s", kind, problem), unit,
						map[string]any{"kind": "deliveries", "target": kind, "path": fmt.Sprint(path), "problem": problem})
					continue
				}
				if !seen[key] {
					seen[key] = true
					next = append(next, node{path})
				}
			}
		}
		frontier = next
	}
	res.States = len(seen)
	if faulty {
		kind = "replica-applyfail"
	}
	res.Count("distinct_delivery_outcomes:"+kind, len(outcomes))
	res.Sample(map[string]any{"deliveries_target": kind, "alphabet": fmt.Sprint(alphabet), "states": len(seen), "max_depth": depth})
	return res
}

func hWal(h *delivHistory) []walEnt {
	var out []walEnt
	for _, e := range h.ents {
		out = append(out, walEnt{Type: e.Type, Key: e.Key, Val: e.Value, Seq: e.SequenceNumber})
	}
	return out
}
