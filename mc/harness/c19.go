package harness

import (
	"bytes"
	"context"
	"crypto/sha256"
	"fmt"
	"os"
	"path/filepath"
	"sort"
	"strings"

	"google.golang.org/grpc"

	"github.com/KevoDB/kevo/pkg/engine"
	"github.com/KevoDB/kevo/pkg/grpc/service"
	"github.com/KevoDB/kevo/pkg/replication"
	"github.com/KevoDB/kevo/pkg/transaction"
	"github.com/KevoDB/kevo/pkg/zzverif/vsched"
	pb "github.com/KevoDB/kevo/proto/kevo"
	"verif/mc/fw"
)

// C19 — the network API behaves like the embedded API.

type fakeStream[T any] struct {
	grpc.ServerStream
	out []*T
}

func (f *fakeStream[T]) Send(m *T) error          { f.out = append(f.out, m); return nil }
func (f *fakeStream[T]) Context() context.Context { return context.Background() }

type c19Req struct {
	Kind string `json:"k"`
	Key  string `json:"key,omitempty"`
	Val  string `json:"val,omitempty"`
}

func (r c19Req) String() string {
	if r.Key != "" || r.Val != "" {
		return fmt.Sprintf("%s(%s)", r.Kind, clipS(r.Key+" "+r.Val, 30))
	}
	return r.Kind
}

func c19Alphabet(thorough bool) []c19Req {
	a := []c19Req{
		{Kind: "Put", Key: "k1", Val: "v"}, {Kind: "Put", Key: "k2x", Val: ""}, {Kind: "Put", Key: "j9x", Val: "v"}, {Kind: "Delete", Key: "k1"},
		{Kind: "Batch"}, {Kind: "BatchDup"},
		{Kind: "BeginRW"}, {Kind: "BeginRO"}, {Kind: "TxPut", Key: "k1"}, {Kind: "TxDelete", Key: "k2x"}, {Kind: "Commit"}, {Kind: "Rollback"}, {Kind: "TxPutBig"},
		// a second client's read-only transaction, open next to the first handle
		{Kind: "BeginRO2"}, {Kind: "Finish2"},
		// requests that must be rejected without side effects
		{Kind: "PutEmptyKey"}, {Kind: "PutKey4097"}, {Kind: "Batch1001"}, {Kind: "BatchBadKey"}, {Kind: "TxGetBadKey"}, {Kind: "TxPutUnknown"}, {Kind: "TxPutBadKey"},
		{Kind: "PutKey4096"},
	}
	if thorough {
		a = append(a, c19Req{Kind: "PutVal10M"}, c19Req{Kind: "PutVal10M+1"}, c19Req{Kind: "Batch1000"})
	}
	return a
}

type c19State struct {
	srv    *service.KevoServiceServer
	r      *EngRun
	handle string // open transaction handle ("" none)
	ro     bool
	txView map[string][]byte // model + own writes of the open transaction
	dead   []string          // handles that were committed / rolled back
	step   int
	handle2 string // second open handle (read-only), "" none
	doomed bool // the open transaction holds a value larger than a log record: its commit fails (as it does embedded)
}

// apply executes one request; returns a problem if the response disagrees with the embedded semantics.
func (s *c19State) apply(q c19Req) string {
	s.step++
	ctx := context.Background()
	val := func() []byte {
		if q.Val == "" {
			return nil // an empty bytes field arrives as nil after protobuf unmarshalling
		}
		return []byte(fmt.Sprintf("%s%d", q.Val, s.step))
	}
	mustReject := func(what string, err error, before map[string][]byte) string {
		if err == nil {
			return fmt.Sprintf("invalid-request-accepted\n%s was accepted", what)
		}
		return ""
	}
	switch q.Kind {
	case "Put", "PutKey4096", "PutVal10M":
		k := []byte(q.Key)
		v := val()
		if q.Kind == "PutKey4096" {
			k = bytes.Repeat([]byte("K"), 4096)
			v = []byte("edge")
		}
		if q.Kind == "PutVal10M" {
			k, v = []byte("big"), bytes.Repeat([]byte("B"), 10*1024*1024)
		}
		resp, err := s.srv.Put(ctx, &pb.PutRequest{Key: k, Value: v})
		if err != nil || !resp.Success {
			return fmt.Sprintf("valid-request-rejected\n%s failed: %v", q, err)
		}
		if v == nil {
			v = []byte{}
		}
		s.r.Model[string(k)] = v
		if s.txView != nil {
			if _, own := s.txView["\x00own:"+string(k)]; !own {
				s.txView[string(k)] = v
			}
		}
	case "Delete":
		resp, err := s.srv.Delete(ctx, &pb.DeleteRequest{Key: []byte(q.Key)})
		if err != nil || !resp.Success {
			return fmt.Sprintf("valid-request-rejected\n%s failed: %v", q, err)
		}
		delete(s.r.Model, q.Key)
		if s.txView != nil {
			if _, own := s.txView["\x00own:"+q.Key]; !own {
				delete(s.txView, q.Key)
			}
		}
	case "BeginRO2":
		// two read-only transactions share the lock; next to a read-write one the request would wait (excluded)
		if s.handle2 != "" || (s.handle != "" && !s.ro) {
			return ""
		}
		resp, err := s.srv.BeginTransaction(ctx, &pb.BeginTransactionRequest{ReadOnly: true})
		if err != nil || resp.TransactionId == "" || resp.TransactionId == s.handle {
			return fmt.Sprintf("valid-request-rejected\n%s failed: %v %v", q, resp, err)
		}
		s.handle2 = resp.TransactionId
	case "Finish2":
		if s.handle2 == "" {
			return ""
		}
		var err error
		var ok bool
		if s.step%2 == 0 {
			var resp *pb.CommitTransactionResponse
			resp, err = s.srv.CommitTransaction(ctx, &pb.CommitTransactionRequest{TransactionId: s.handle2})
			ok = resp != nil && resp.Success
		} else {
			var resp *pb.RollbackTransactionResponse
			resp, err = s.srv.RollbackTransaction(ctx, &pb.RollbackTransactionRequest{TransactionId: s.handle2})
			ok = resp != nil && resp.Success
		}
		if err != nil || !ok {
			return fmt.Sprintf("valid-request-rejected\nfinishing the second read-only handle failed: %v", err)
		}
		s.dead = append(s.dead, s.handle2)
		s.handle2 = ""
	case "Batch", "BatchDup", "Batch1000":
		if s.handle != "" || s.handle2 != "" {
			return "" // BatchWrite opens a transaction of its own: excluded while the client holds one
		}
		var ops []*pb.Operation
		switch q.Kind {
		case "Batch":
			ops = []*pb.Operation{{Type: pb.Operation_PUT, Key: []byte("k1"), Value: []byte(fmt.Sprintf("b%d", s.step))}, {Type: pb.Operation_DELETE, Key: []byte("k2x")}, {Type: pb.Operation_PUT, Key: []byte("k3"), Value: nil}}
		case "BatchDup":
			ops = []*pb.Operation{{Type: pb.Operation_PUT, Key: []byte("k1"), Value: []byte("first")}, {Type: pb.Operation_DELETE, Key: []byte("k1")}, {Type: pb.Operation_PUT, Key: []byte("k1"), Value: []byte(fmt.Sprintf("last%d", s.step))}}
		case "Batch1000":
			for i := 0; i < 1000; i++ {
				ops = append(ops, &pb.Operation{Type: pb.Operation_PUT, Key: []byte(fmt.Sprintf("m%04d", i%7)), Value: []byte(fmt.Sprint(i))})
			}
		}
		resp, err := s.srv.BatchWrite(ctx, &pb.BatchWriteRequest{Operations: ops})
		if err != nil || !resp.Success {
			return fmt.Sprintf("valid-request-rejected\n%s failed: %v", q, err)
		}
		for _, o := range ops {
			if o.Type == pb.Operation_PUT {
				v := o.Value
				if v == nil {
					v = []byte{}
				}
				s.r.Model[string(o.Key)] = v
			} else {
				delete(s.r.Model, string(o.Key))
			}
		}
	case "BeginRW", "BeginRO":
		if s.handle != "" || (s.handle2 != "" && q.Kind == "BeginRW") {
			return "" // a second transaction while holding one is excluded
		}
		resp, err := s.srv.BeginTransaction(ctx, &pb.BeginTransactionRequest{ReadOnly: q.Kind == "BeginRO"})
		if err != nil || resp.TransactionId == "" {
			return fmt.Sprintf("valid-request-rejected\n%s failed: %v", q, err)
		}
		s.handle, s.ro = resp.TransactionId, q.Kind == "BeginRO"
		s.txView = cloneModel(s.r.Model)
	case "TxPut", "TxDelete":
		if s.handle == "" {
			return ""
		}
		var err error
		var ok bool
		v := []byte(fmt.Sprintf("t%d", s.step))
		if q.Kind == "TxPut" {
			var resp *pb.TxPutResponse
			resp, err = s.srv.TxPut(ctx, &pb.TxPutRequest{TransactionId: s.handle, Key: []byte(q.Key), Value: v})
			ok = resp != nil && resp.Success
		} else {
			var resp *pb.TxDeleteResponse
			resp, err = s.srv.TxDelete(ctx, &pb.TxDeleteRequest{TransactionId: s.handle, Key: []byte(q.Key)})
			ok = resp != nil && resp.Success
		}
		if s.ro {
			if err == nil && ok {
				return fmt.Sprintf("write-in-read-only-transaction-accepted\n%s succeeded on a read-only handle", q)
			}
			return ""
		}
		if err != nil || !ok {
			return fmt.Sprintf("valid-request-rejected\n%s failed: %v", q, err)
		}
		s.txView["\x00own:"+q.Key] = nil
		if q.Kind == "TxPut" {
			s.txView[q.Key] = v
		} else {
			delete(s.txView, q.Key)
		}
	case "TxPutBig":
		// within the service's limits (10 MiB) but larger than one log record: accepted now, the commit will fail
		if s.handle == "" || s.ro {
			return ""
		}
		v := bytes.Repeat([]byte("G"), 40000)
		resp, err := s.srv.TxPut(ctx, &pb.TxPutRequest{TransactionId: s.handle, Key: []byte("big"), Value: v})
		if err != nil || resp == nil || !resp.Success {
			return fmt.Sprintf("valid-request-rejected\n%s failed: %v", q, err)
		}
		s.txView["\x00own:big"] = nil
		s.txView["big"] = v
		s.doomed = true
	case "Commit", "Rollback":
		if s.handle == "" {
			// finishing an already finished / never created handle must fail
			h := "tx-unknown"
			if len(s.dead) > 0 {
				h = s.dead[len(s.dead)-1]
			}
			var err error
			if q.Kind == "Commit" {
				_, err = s.srv.CommitTransaction(ctx, &pb.CommitTransactionRequest{TransactionId: h})
			} else {
				_, err = s.srv.RollbackTransaction(ctx, &pb.RollbackTransactionRequest{TransactionId: h})
			}
			if err == nil {
				return fmt.Sprintf("finished-handle-usable\n%s on handle %s (finished or unknown) succeeded", q.Kind, h)
			}
			return ""
		}
		var err error
		var ok bool
		if q.Kind == "Commit" {
			var resp *pb.CommitTransactionResponse
			resp, err = s.srv.CommitTransaction(ctx, &pb.CommitTransactionRequest{TransactionId: s.handle})
			ok = resp != nil && resp.Success
		} else {
			var resp *pb.RollbackTransactionResponse
			resp, err = s.srv.RollbackTransaction(ctx, &pb.RollbackTransactionRequest{TransactionId: s.handle})
			ok = resp != nil && resp.Success
		}
		if q.Kind == "Commit" && s.doomed {
			// the commit fails (the engine refuses the oversized entry): nothing is applied and the handle is finished
			if err == nil && ok {
				return fmt.Sprintf("oversized-commit-accepted\n%s of a transaction holding a 40000-byte value succeeded", q)
			}
			s.dead = append(s.dead, s.handle)
			s.handle, s.txView, s.doomed = "", nil, false
			return ""
		}
		if err != nil || !ok {
			return fmt.Sprintf("valid-request-rejected\n%s failed: %v", q, err)
		}
		if q.Kind == "Commit" && !s.ro {
			for k := range s.txView {
				if strings.HasPrefix(k, "\x00own:") {
					key := k[5:]
					if v, ok := s.txView[key]; ok {
						s.r.Model[key] = v
					} else {
						delete(s.r.Model, key)
					}
				}
			}
		}
		s.dead = append(s.dead, s.handle)
		s.handle, s.txView, s.doomed = "", nil, false
	case "PutEmptyKey":
		_, err := s.srv.Put(ctx, &pb.PutRequest{Key: nil, Value: []byte("x")})
		return mustReject("Put with an empty key", err, nil)
	case "PutKey4097":
		_, err := s.srv.Put(ctx, &pb.PutRequest{Key: bytes.Repeat([]byte("K"), 4097), Value: []byte("x")})
		return mustReject("Put with a 4097-byte key", err, nil)
	case "PutVal10M+1":
		_, err := s.srv.Put(ctx, &pb.PutRequest{Key: []byte("big2"), Value: bytes.Repeat([]byte("B"), 10*1024*1024+1)})
		return mustReject("Put with a 10 MiB+1 value", err, nil)
	case "Batch1001":
		if s.handle != "" || s.handle2 != "" {
			return ""
		}
		var ops []*pb.Operation
		for i := 0; i < 1001; i++ {
			ops = append(ops, &pb.Operation{Type: pb.Operation_PUT, Key: []byte(fmt.Sprintf("n%04d", i)), Value: []byte("x")})
		}
		_, err := s.srv.BatchWrite(ctx, &pb.BatchWriteRequest{Operations: ops})
		return mustReject("BatchWrite with 1001 operations", err, nil)
	case "BatchBadKey":
		if s.handle != "" || s.handle2 != "" {
			return ""
		}
		_, err := s.srv.BatchWrite(ctx, &pb.BatchWriteRequest{Operations: []*pb.Operation{{Type: pb.Operation_PUT, Key: []byte("k1"), Value: []byte("partial")}, {Type: pb.Operation_PUT, Key: nil, Value: []byte("x")}}})
		return mustReject("BatchWrite with an empty key in the second operation", err, nil)
	case "TxGetBadKey":
		if s.handle == "" {
			return ""
		}
		_, err := s.srv.TxGet(ctx, &pb.TxGetRequest{TransactionId: s.handle, Key: nil})
		return mustReject("TxGet with an empty key", err, nil)
	case "TxPutBadKey":
		if s.handle == "" || s.ro {
			return ""
		}
		_, err := s.srv.TxPut(ctx, &pb.TxPutRequest{TransactionId: s.handle, Key: bytes.Repeat([]byte("K"), 4097), Value: []byte("x")})
		return mustReject("TxPut with a 4097-byte key", err, nil)
	case "TxPutUnknown":
		_, err := s.srv.TxPut(ctx, &pb.TxPutRequest{TransactionId: "tx-424242", Key: []byte("k1"), Value: []byte("x")})
		return mustReject("TxPut on an unknown handle", err, nil)
	}
	return ""
}

var c19Keys = []string{"k1", "k2x", "k3", "j9x", "big", "zz"}

func c19ScanWant(view map[string][]byte, prefix, suffix, start, end string, limit int) []kv {
	var out []kv
	for _, e := range modelSorted(view) {
		if strings.HasPrefix(e.K, "\x00own:") {
			continue
		}
		if prefix != "" || suffix != "" {
			// documented: prefix/suffix make start/end ignored
			if !strings.HasPrefix(e.K, prefix) || !strings.HasSuffix(e.K, suffix) {
				continue
			}
		} else {
			if start != "" && e.K < start {
				continue
			}
			if end != "" && e.K >= end {
				continue
			}
		}
		out = append(out, e)
	}
	if limit > 0 && len(out) > limit {
		out = out[:limit]
	}
	return out
}

// reads checks every read-only request against the model (and, with an open handle, the transaction's view).
func (s *c19State) reads() string {
	ctx := context.Background()
	for _, k := range append(c19Keys, string(bytes.Repeat([]byte("K"), 4096))) {
		resp, err := s.srv.Get(ctx, &pb.GetRequest{Key: []byte(k)})
		if err != nil {
			return fmt.Sprintf("get-failed\nGet(%s): %v", clipS(k, 12), err)
		}
		want, ok := s.r.Model[k]
		if resp.Found != ok || (ok && !bytes.Equal(resp.Value, want)) {
			return fmt.Sprintf("get-differs\nGet(%s) -> found=%v %q; embedded semantics: found=%v %q", clipS(k, 12), resp.Found, clip(resp.Value), ok, clip(want))
		}
		if s.handle != "" {
			tr, err := s.srv.TxGet(ctx, &pb.TxGetRequest{TransactionId: s.handle, Key: []byte(k)})
			if err != nil {
				return fmt.Sprintf("txget-failed\nTxGet(%s): %v", clipS(k, 12), err)
			}
			w, ok := s.txView[k]
			if tr.Found != ok || (ok && !bytes.Equal(tr.Value, w)) {
				return fmt.Sprintf("txget-differs\nTxGet(%s) -> found=%v %q; transaction view: found=%v %q", clipS(k, 12), tr.Found, clip(tr.Value), ok, clip(w))
			}
		}
	}
	if s.handle2 != "" {
		// the second handle reads the committed data, whatever the first handle holds
		for _, k := range c19Keys {
			tr, err := s.srv.TxGet(ctx, &pb.TxGetRequest{TransactionId: s.handle2, Key: []byte(k)})
			if err != nil {
				return fmt.Sprintf("txget-failed\nTxGet(%s) on the second handle: %v", k, err)
			}
			w, ok := s.r.Model[k]
			if tr.Found != ok || (ok && !bytes.Equal(tr.Value, w)) {
				return fmt.Sprintf("txget-differs\nTxGet(%s) on the second (read-only) handle -> found=%v %q; committed data: found=%v %q", k, tr.Found, clip(tr.Value), ok, clip(w))
			}
		}
		st := &fakeStream[pb.TxScanResponse]{}
		if err := s.srv.TxScan(&pb.TxScanRequest{TransactionId: s.handle2}, st); err != nil {
			return fmt.Sprintf("txscan-failed\nTxScan on the second handle: %v", err)
		}
		var got []kv
		for _, m := range st.out {
			got = append(got, kv{string(m.Key), string(m.Value)})
		}
		if d := cmpKV(got, c19ScanWant(s.r.Model, "", "", "", "", 0)); d != "" {
			return fmt.Sprintf("txscan-differs\nTxScan on the second (read-only) handle: %s", d)
		}
		if _, err := s.srv.TxPut(ctx, &pb.TxPutRequest{TransactionId: s.handle2, Key: []byte("k1"), Value: []byte("x")}); err == nil {
			return "write-in-read-only-transaction-accepted\nTxPut succeeded on the second (read-only) handle"
		}
	}
	// the embedded API on the same engine sees the same data
	if p := s.r.CheckGets(c19Keys); p != "" {
		return "embedded-" + firstLine(p) + "\nembedded read after service writes: " + p
	}
	// scans: all combinations of option presence, then prefix/suffix pairs that overlap on a key, equal a whole key,
	// or are longer than every key
	extra := [][2]string{{"k2x", "2x"}, {"k2", "2x"}, {"k2x", "k2x"}, {"j", "j9x"}, {"k1", "1"}, {"k3", "3"}, {"k2xx", ""}, {"", "xk2x"}, {"k", "k"}}
	for mask := 0; mask < 32+len(extra); mask++ {
		var prefix, suffix, start, end string
		limit := 0
		if mask >= 32 {
			prefix, suffix = extra[mask-32][0], extra[mask-32][1]
		} else {
			if mask&1 != 0 {
				prefix = "k"
			}
			if mask&2 != 0 {
				suffix = "x"
			}
			if mask&4 != 0 {
				start = "k1"
			}
			if mask&8 != 0 {
				end = "k3"
			}
			if mask&16 != 0 {
				limit = 1
			}
		}
		desc := fmt.Sprintf("prefix=%q suffix=%q start=%q end=%q limit=%d", prefix, suffix, start, end, limit)
		if s.handle == "" {
			st := &fakeStream[pb.ScanResponse]{}
			if err := s.srv.Scan(&pb.ScanRequest{Prefix: pbBytes(prefix), Suffix: pbBytes(suffix), StartKey: pbBytes(start), EndKey: pbBytes(end), Limit: int32(limit)}, st); err != nil {
				return fmt.Sprintf("scan-failed\nScan(%s): %v", desc, err)
			}
			var got []kv
			for _, m := range st.out {
				got = append(got, kv{string(m.Key), string(m.Value)})
			}
			if d := cmpKV(got, c19ScanWant(s.r.Model, prefix, suffix, start, end, limit)); d != "" {
				return fmt.Sprintf("scan-differs\nScan(%s): %s", desc, d)
			}
		} else {
			st := &fakeStream[pb.TxScanResponse]{}
			if err := s.srv.TxScan(&pb.TxScanRequest{TransactionId: s.handle, Prefix: pbBytes(prefix), Suffix: pbBytes(suffix), StartKey: pbBytes(start), EndKey: pbBytes(end), Limit: int32(limit)}, st); err != nil {
				return fmt.Sprintf("txscan-failed\nTxScan(%s): %v", desc, err)
			}
			var got []kv
			for _, m := range st.out {
				got = append(got, kv{string(m.Key), string(m.Value)})
			}
			if d := cmpKV(got, c19ScanWant(s.txView, prefix, suffix, start, end, limit)); d != "" {
				return fmt.Sprintf("txscan-differs\nTxScan(%s): %s", desc, d)
			}
		}
	}
	// limit 2 and a range that is empty
	if s.handle == "" {
		st := &fakeStream[pb.ScanResponse]{}
		s.srv.Scan(&pb.ScanRequest{Limit: 2}, st)
		if len(st.out) != len(c19ScanWant(s.r.Model, "", "", "", "", 2)) {
			return fmt.Sprintf("scan-differs\nScan(limit=2) returned %d entries", len(st.out))
		}
		ni, err := s.srv.GetNodeInfo(ctx, &pb.GetNodeInfoRequest{})
		if err != nil || ni.NodeRole != pb.GetNodeInfoResponse_STANDALONE || ni.ReadOnly {
			return fmt.Sprintf("node-info\nGetNodeInfo on a standalone node: %v %v", ni, err)
		}
	}
	// finished handles are unusable
	for _, h := range s.dead {
		if _, err := s.srv.TxGet(ctx, &pb.TxGetRequest{TransactionId: h, Key: []byte("k1")}); err == nil {
			return "finished-handle-usable\nTxGet on handle " + h + " after commit/rollback succeeded"
		}
		if _, err := s.srv.TxPut(ctx, &pb.TxPutRequest{TransactionId: h, Key: []byte("k1"), Value: []byte("x")}); err == nil {
			return "finished-handle-usable\nTxPut on handle " + h + " after commit/rollback succeeded"
		}
	}
	return ""
}

func (s *c19State) key() string {
	return s.r.StateKey() + fmt.Sprintf("|h=%v h2=%v ro=%v doomed=%v dead=%d view=%s", s.handle != "", s.handle2 != "", s.ro, s.doomed, len(s.dead), canonValues(strModel(s.txView)))
}

func c19Run(dir string, prog []c19Req, res *fw.Result) (problem, key string, out vsched.Outcome, detail string) {
	os.RemoveAll(dir)
	sch := vsched.Run(vsched.Config{Bound: 0, NoEnv: true, MaxSteps: 30_000_000}, func() {
		r, err := newEngRun(dir, engCfgs["big"])
		if err != nil {
			problem = "open-failed\n" + err.Error()
			return
		}
		defer r.Close()
		s := &c19State{r: r, srv: service.NewKevoServiceServer(r.Eng, transaction.NewRegistry(), nil)}
		for i, q := range prog {
			if p := s.apply(q); p != "" {
				problem = p
				return
			}
			// a rejected request leaves state and open transactions untouched: checked by the reads below
			_ = i
		}
		problem = s.reads()
		key = s.key()
		// leave the database free for Close
		if s.handle != "" {
			s.srv.RollbackTransaction(context.Background(), &pb.RollbackTransactionRequest{TransactionId: s.handle})
		}
		if s.handle2 != "" {
			s.srv.RollbackTransaction(context.Background(), &pb.RollbackTransactionRequest{TransactionId: s.handle2})
		}
	})
	os.RemoveAll(dir)
	return problem, key, sch.Out, sch.Detail
}

func c19Unit(unit string, env *fw.Env) *fw.Result {
	if unit == "node-info" {
		return c19NodeInfoUnit(unit, env)
	}
	res := fw.NewResult()
	alpha := c19Alphabet(env.Thorough)
	depth := 4
	if env.Thorough {
		depth = 5
	}
	var first int
	fmt.Sscanf(unit, "seq/%d", &first)
	dir := filepath.Join(fw.Scratch("c19"), "db")
	visited := map[[16]byte]int{}
	var rec func(prog []c19Req)
	rec = func(prog []c19Req) {
		if env.Expired() {
			if res.Exhaustive {
				res.Caps = append(res.Caps, fmt.Sprintf("%s: deadline at length %d", unit, len(prog)))
			}
			res.Exhaustive = false
			return
		}
		var ps []string
		for _, q := range prog {
			ps = append(ps, q.String())
		}
		desc := strings.Join(ps, " ")
		fw.Progress("c19 " + desc)
		problem, key, out, detail := c19Run(dir, prog, res)
		res.Evaluations++
		res.Transitions++
		res.Traces++
		if out != vsched.OK {
			problem = out.String() + "\n" + detail
		}
		if problem != "" {
			res.Violate(fw.FP("C19", firstLine(problem), desc), fmt.Sprintf("%s: %s", desc, problem), unit, map[string]any{"kind": "requests", "prog": prog, "problem": problem})
			return
		}
		if len(prog) >= 2 {
			res.Nontrivial++
		}
		if len(res.Samples) < 2 && len(prog) == depth {
			res.Sample(desc)
		}
		remaining := depth - len(prog)
		h := sha256.Sum256([]byte(key))
		var k [16]byte
		copy(k[:], h[:16])
		if old, ok := visited[k]; ok && old >= remaining {
			res.Count("merged_by_state_key", 1)
			return
		}
		if _, ok := visited[k]; !ok {
			res.States++
		}
		visited[k] = remaining
		if remaining == 0 {
			return
		}
		for _, a := range alpha {
			rec(append(prog[:len(prog):len(prog)], a))
		}
	}
	rec([]c19Req{alpha[first]})
	return res
}

func init() {
	fw.Register(&fw.Check{
		ID:    "C19",
		Level: "model_checking",
		Rule: "explicit-state search over request sequences (depth 4, thorough 5) against the real KevoServiceServer handlers (in-memory stream objects) on a real engine: alphabet of 23 (26) requests {a second client's read-only transaction opened and finished next to the first handle (its reads show the committed data, finishing it leaves the first handle usable), TxPut of a 40000-byte value (accepted; the commit then fails as it does embedded, and the handle must be finished), Put (incl. empty value, 4096-byte key, 10 MiB value), Delete, BatchWrite (3 ops incl. empty value; repeated key; 1000 ops), Begin rw/ro, TxPut, TxDelete, Commit, Rollback (also on finished/unknown handles), and requests that must be rejected: empty key, 4097-byte key, 10 MiB+1 value, 1001-operation batch, batch with a bad key in its second operation, TxGet/TxPut with bad keys, TxPut on an unknown handle}; after every sequence the whole read suite runs: Get/TxGet of 7 keys, all 32 combinations of {prefix, suffix, start, end, limit} for Scan or TxScan, 9 prefix/suffix pairs that overlap on a key / equal a whole key / exceed every key, limit 2, GetNodeInfo, use of finished handles, and the embedded reads on the same engine. Oracle: map model with the documented rule that prefix/suffix make start/end ignored; a rejected request changes nothing (state, open transaction). States de-duplicated by engine state + open handle + transaction view. Non-trivial = sequences with >=2 requests",
		Assumptions: []string{"handlers are called directly with in-memory stream objects (protobuf marshalling is not exercised; empty bytes fields are passed as nil, which is what unmarshalling yields)", "Compact and GetStats are administrative and outside the statement's list", "a client does not open a second transaction (Scan, BatchWrite) while holding a handle"},
		Units: func(tier string) []string {
			var us []string
			for i := range c19Alphabet(tier == "thorough") {
				us = append(us, fmt.Sprintf("seq/%d", i))
			}
			return append(us, "node-info")
		},
		Run:    c19Unit,
		Replay: func(v *fw.Violation) string { return fmt.Sprintf("re-run: kvcheck one C19 quick %s\nwitness: %v", v.Unit, v.Witness) },
		BudgetQuick: 110, BudgetThorough: 900,
	})
	_ = sort.Strings
}

// pbBytes mimics protobuf unmarshalling: an empty bytes field is nil.
func pbBytes(s string) []byte {
	if s == "" {
		return nil
	}
	return []byte(s)
}

// node info: the service's answer against the embedded provider's, for every combination of a small set of provider
// answers (role x primary address x replica list of 0-2 entries with all-distinct field values x last sequence x
// read-only flag). Differential, field by field.
type nodeInfoStub struct {
	role, addr string
	reps       []replication.ReplicationNodeInfo
	seq        uint64
	ro         bool
}

func (n *nodeInfoStub) GetNodeInfo() (string, string, []replication.ReplicationNodeInfo, uint64, bool) {
	return n.role, n.addr, n.reps, n.seq, n.ro
}

func c19NodeInfoUnit(unit string, env *fw.Env) *fw.Result {
	res := fw.NewResult()
	dir := filepath.Join(fw.Scratch("c19n"), "db")
	e, err := engine.NewEngineFacade(dir)
	if err != nil {
		res.HarnessErr = err.Error()
		return res
	}
	defer e.Close()
	repA := replication.ReplicationNodeInfo{Address: "10.0.0.1:7001", LastSequence: 40, Available: true, Region: "eu", Meta: map[string]string{"k": "v"}}
	repB := replication.ReplicationNodeInfo{Address: "10.0.0.2:7002", LastSequence: 7, Available: false, Region: "", Meta: nil}
	lists := [][]replication.ReplicationNodeInfo{nil, {}, {repA}, {repB}, {repA, repB}, {repB, repA}}
	for _, role := range []string{"primary", "replica", "standalone", "", "other"} {
		for _, addr := range []string{"", "10.9.9.9:50051"} {
			for li, reps := range lists {
				for _, seq := range []uint64{0, 120, ^uint64(0)} {
					for _, ro := range []bool{false, true} {
						stub := &nodeInfoStub{role, addr, reps, seq, ro}
						srv := service.NewKevoServiceServer(e, transaction.NewRegistry(), stub)
						got, err := srv.GetNodeInfo(context.Background(), &pb.GetNodeInfoRequest{})
						res.Evaluations++
						res.States++
						res.Transitions++
						res.Traces++
						if len(reps) > 0 {
							res.Nontrivial++
						}
						desc := fmt.Sprintf("provider answers role=%q primary=%q replicas#%d last=%d read_only=%v", role, addr, li, seq, ro)
						viol := func(field, detail string) {
							res.Violate(fw.FP("C19", "node-info", field), "node-info-differs\n"+desc+": "+detail, unit, map[string]any{"kind": "node-info", "desc": desc, "field": field})
						}
						if err != nil || got == nil {
							viol("error", fmt.Sprintf("GetNodeInfo failed: %v", err))
							continue
						}
						wantRole := map[string]pb.GetNodeInfoResponse_NodeRole{"primary": pb.GetNodeInfoResponse_PRIMARY, "replica": pb.GetNodeInfoResponse_REPLICA}[role] // anything else is standalone
						if role != "primary" && role != "replica" {
							wantRole = pb.GetNodeInfoResponse_STANDALONE
						}
						if got.NodeRole != wantRole {
							viol("role", fmt.Sprintf("role %v, embedded %q", got.NodeRole, role))
						}
						if got.PrimaryAddress != addr {
							viol("primary-address", fmt.Sprintf("primary address %q, embedded %q", got.PrimaryAddress, addr))
						}
						if got.LastSequence != seq {
							viol("last-sequence", fmt.Sprintf("last sequence %d, embedded %d", got.LastSequence, seq))
						}
						if got.ReadOnly != ro {
							viol("read-only", fmt.Sprintf("read_only %v, embedded %v", got.ReadOnly, ro))
						}
						if len(got.Replicas) != len(reps) {
							viol("replica-count", fmt.Sprintf("%d replicas, embedded %d", len(got.Replicas), len(reps)))
							continue
						}
						for i, r := range reps {
							g := got.Replicas[i]
							if g.Address != r.Address || g.LastSequence != r.LastSequence || g.Available != r.Available || g.Region != r.Region || fmt.Sprint(g.Meta) != fmt.Sprint(r.Meta) && !(len(g.Meta) == 0 && len(r.Meta) == 0) {
								viol("replica-entry", fmt.Sprintf("replica %d reported as {%s %d %v %q %v}, embedded {%s %d %v %q %v}", i, g.Address, g.LastSequence, g.Available, g.Region, g.Meta, r.Address, r.LastSequence, r.Available, r.Region, r.Meta))
							}
						}
					}
				}
			}
		}
	}
	return res
}
