package harness

import (
	"sync"
	"fmt"
	"sort"
	"strings"

	"github.com/anishathalye/porcupine"
	"github.com/KevoDB/kevo/pkg/zzverif/vsched"
)

// kvOp is one client operation of a recorded history (call/return are logical timestamps of the scheduler).
type kvOp struct {
	Client int
	Kind   string // put get del tx
	Key    string
	Val    string
	// outputs
	Found bool
	Out   string
	Err   string
	// transactions: reads observed (key -> value or "<nf>") and writes (key -> value or "<del>")
	Reads  [][2]string
	Writes [][2]string
	Call   int
	Ret    int
}

func (o kvOp) String() string {
	switch o.Kind {
	case "put":
		return fmt.Sprintf("c%d put(%s=%s)->%s [%d,%d]", o.Client, o.Key, o.Val, errS(o.Err), o.Call, o.Ret)
	case "del":
		return fmt.Sprintf("c%d del(%s)->%s [%d,%d]", o.Client, o.Key, errS(o.Err), o.Call, o.Ret)
	case "get":
		r := "<nf>"
		if o.Found {
			r = o.Out
		}
		if o.Err != "" {
			r = "ERR " + o.Err
		}
		return fmt.Sprintf("c%d get(%s)->%s [%d,%d]", o.Client, o.Key, r, o.Call, o.Ret)
	}
	return fmt.Sprintf("c%d tx reads%v writes%v ->%s [%d,%d]", o.Client, o.Reads, o.Writes, errS(o.Err), o.Call, o.Ret)
}

func errS(e string) string {
	if e == "" {
		return "ok"
	}
	return "ERR " + e
}

func encState(m map[string]string) string {
	var ks []string
	for k, v := range m {
		ks = append(ks, k+"="+v)
	}
	sort.Strings(ks)
	return strings.Join(ks, ";")
}

func decState(s string) map[string]string {
	m := map[string]string{}
	if s == "" {
		return m
	}
	for _, kv := range strings.Split(s, ";") {
		i := strings.Index(kv, "=")
		m[kv[:i]] = kv[i+1:]
	}
	return m
}

func kvModel(initial map[string]string) porcupine.Model {
	return porcupine.Model{
		Init: func() interface{} { return encState(initial) },
		Step: func(state, input, output interface{}) (bool, interface{}) {
			st := decState(state.(string))
			o := input.(kvOp)
			switch o.Kind {
			case "put":
				if o.Err != "" {
					return true, state // a failed write must linearize as a no-op
				}
				st[o.Key] = o.Val
				return true, encState(st)
			case "del":
				if o.Err != "" {
					return true, state
				}
				delete(st, o.Key)
				return true, encState(st)
			case "get":
				if o.Err != "" {
					return false, state // reads must not fail
				}
				v, ok := st[o.Key]
				if ok != o.Found || (ok && v != o.Out) {
					return false, state
				}
				return true, state
			case "tx":
				for _, r := range o.Reads {
					v, ok := st[r[0]]
					if !ok {
						v = "<nf>"
					}
					if v != r[1] {
						return false, state
					}
				}
				if o.Err != "" {
					return true, state
				}
				for _, w := range o.Writes {
					if w[1] == "<del>" {
						delete(st, w[0])
					} else {
						st[w[0]] = w[1]
					}
				}
				return true, encState(st)
			}
			return false, state
		},
		Equal: func(a, b interface{}) bool { return a.(string) == b.(string) },
	}
}

// linearizable checks the history against the whole-store model.
func linearizable(hist []kvOp, initial map[string]string) bool {
	var ops []porcupine.Operation
	for _, o := range hist {
		ops = append(ops, porcupine.Operation{ClientId: o.Client, Input: o, Output: nil, Call: int64(o.Call), Return: int64(o.Ret)})
	}
	return porcupine.CheckOperations(kvModel(initial), ops)
}

func histString(h []kvOp) string {
	s := append([]kvOp{}, h...)
	sort.Slice(s, func(i, j int) bool { return s[i].Call < s[j].Call })
	var out []string
	for _, o := range s {
		out = append(out, o.String())
	}
	return strings.Join(out, " | ")
}

// recorder collects a history inside a scenario.
type recorder struct {
	Ops []kvOp
	mu  sync.Mutex // free-running race pass only: client goroutines append concurrently there
}

func (r *recorder) do(client int, kind, key, val string, f func(o *kvOp)) {
	o := kvOp{Client: client, Kind: kind, Key: key, Val: val}
	if !vsched.Installed() {
		// free-running race pass: no history is evaluated, only the calls matter
		f(&o)
		r.mu.Lock()
		r.Ops = append(r.Ops, o)
		r.mu.Unlock()
		return
	}
	o.Call = vsched.MarkCall()
	f(&o)
	o.Ret = vsched.MarkRet()
	r.Ops = append(r.Ops, o)
}
