package harness

import (
	"encoding/json"
	"fmt"
	"os"
	"path/filepath"
	"sort"
	"strings"
	"time"

	"github.com/KevoDB/kevo/pkg/replication"
	"github.com/KevoDB/kevo/pkg/wal"
	"github.com/KevoDB/kevo/pkg/zzverif/vsched"
	rp "github.com/KevoDB/kevo/proto/kevo/replication"
	"verif/mc/fw"
)

// C13 — a replica applies the primary's log in order, exactly once.
// C14 — a connected replica converges to the primary's state.
// Both are decided on the same executions: deterministic fair runs (discrete-event virtual time) of the real
// Primary and Replica over an in-memory link, for every scenario x every fault vector within the bound.

func repScenarios(thorough bool) []repScenario {
	ms := time.Millisecond
	w := []repOp{{100 * ms, "put", "a", "a1"}, {200 * ms, "put", "b", "b1"}, {300 * ms, "del", "a", ""}, {400 * ms, "tx", "c", "c1"}, {500 * ms, "put", "a", "a2"}}
	wNoTx := []repOp{{100 * ms, "put", "a", "a1"}, {200 * ms, "put", "b", "b1"}, {300 * ms, "del", "a", ""}, {400 * ms, "put", "c", "c1"}, {500 * ms, "put", "a", "a2"}}
	wRot := []repOp{{100 * ms, "put", "a", "a1"}, {200 * ms, "put", "b", "b1"}, {250 * ms, "flush", "", ""}, {300 * ms, "del", "a", ""}, {400 * ms, "put", "c", "c1"}, {450 * ms, "flush", "", ""}, {500 * ms, "put", "a", "a2"}}
	settle := 20 * time.Second
	var out []repScenario
	add := func(name string, ops []repOp, join, restart time.Duration) {
		out = append(out, repScenario{Name: name, Ops: ops, JoinAt: join, Restart: restart, Settle: settle})
		out = append(out, repScenario{Name: name + "-nocodec", Ops: ops, JoinAt: join, Restart: restart, Settle: settle, Explicit: true, Codec: rp.CompressionCodec_NONE})
	}
	add("singles-join-before", wNoTx, 0, 0)
	add("singles-join-during", wNoTx, 250*ms, 0)
	add("singles-join-after", wNoTx, 2*time.Second, 0)
	add("tx-join-before", w, 0, 0)
	add("tx-join-after", w, 2*time.Second, 0)
	add("rotation-join-before", wRot, 0, 0)
	add("rotation-join-after", wRot, 2*time.Second, 0)
	add("restart", wNoTx, 0, 3*time.Second)
	// writes that arrive alone, after the replica has caught up with everything before them
	late := func(base []repOp, more ...repOp) []repOp { return append(append([]repOp{}, base...), more...) }
	add("only-one-write", []repOp{{100 * ms, "put", "a", "a1"}}, 0, 0)
	add("late-single-write", late(wNoTx, repOp{8 * time.Second, "put", "d", "d1"}), 0, 0)
	add("late-two-writes", late(wNoTx, repOp{8 * time.Second, "put", "d", "d1"}, repOp{12 * time.Second, "del", "b", ""}), 0, 0)
	// a transaction with more entries than one stream message carries, with writes on both sides
	wBig := []repOp{{100 * ms, "put", "a", "a1"}, {200 * ms, "bigtx", "t", "t1"}, {300 * ms, "put", "b", "b1"}}
	add("bigtx-join-before", wBig, 0, 0)
	add("bigtx-join-after", wBig, 2*time.Second, 0)
	// a transaction the primary's log rejects, with writes on both sides of it
	add("rejected-tx-then-writes", []repOp{{100 * ms, "put", "a", "a1"}, {200 * ms, "badtx", "x", "x1"}, {300 * ms, "put", "b", "b1"}, {8 * time.Second, "del", "a", ""}}, 0, 0)
	// two flushes in a row leave a log file without entries between the data and the current file
	wFF := []repOp{{100 * ms, "put", "a", "a1"}, {200 * ms, "put", "b", "b1"}, {250 * ms, "flush", "", ""}, {260 * ms, "flush", "", ""}, {300 * ms, "del", "a", ""}, {400 * ms, "flush", "", ""}, {410 * ms, "flush", "", ""}}
	add("double-flush-join-after", wFF, 2*time.Second, 0)
	// large values: the pending bytes exceed the primary's batch size (256 KB) inside a transaction
	var wFat []repOp
	for i := 0; i < 10; i++ {
		wFat = append(wFat, repOp{time.Duration(100+i*10) * ms, "putfat", fmt.Sprintf("f%d", i), "x"})
	}
	wFat = append(wFat, repOp{300 * ms, "fattx", "t", "y"}, repOp{400 * ms, "put", "z", "z1"})
	add("fat-values-join-after", wFat, 2*time.Second, 0)
	// the replica process (manager + engine) restarts on its data after a transaction; the primary writes meanwhile
	wMgr := []repOp{{100 * ms, "put", "a", "a1"}, {200 * ms, "tx", "c", "c1"}, {300 * ms, "put", "b", "b1"}, {5 * time.Second, "put", "d", "d1"}, {9 * time.Second, "del", "a", ""}, {10 * time.Second, "put", "e", "e1"}}
	out = append(out, repScenario{Name: "manager-restart-after-tx", Ops: wMgr, JoinAt: 0, Restart: 6 * time.Second, Settle: settle, ViaManager: true})
	// the primary's log is not synced on every write (sync none / sync batch): the synced position lags the written one
	wTxLast := []repOp{{100 * ms, "put", "a", "a1"}, {200 * ms, "put", "b", "b1"}, {300 * ms, "tx", "c", "c1"}}
	for _, pc := range []string{"bigN", "bigB"} {
		out = append(out, repScenario{Name: "tx-last-" + pc, Ops: wTxLast, Settle: settle, PCfg: pc})
		out = append(out, repScenario{Name: "late-tx-" + pc, Ops: late(wNoTx, repOp{8 * time.Second, "tx", "d", "d1"}), Settle: settle, PCfg: pc})
		out = append(out, repScenario{Name: "singles-join-after-" + pc, Ops: wNoTx, JoinAt: 2 * time.Second, Settle: settle, PCfg: pc})
	}
	// the primary's memtable is full after every write: rotation and flush are driven by the data, in the background
	out = append(out, repScenario{Name: "tx-join-before-tinyprimary", Ops: w, Settle: settle, PCfg: "tiny"})
	out = append(out, repScenario{Name: "tx-join-after-tinyprimary", Ops: w, JoinAt: 2 * time.Second, Settle: settle, PCfg: "tiny"})
	add("tx-then-late-writes", late(w, repOp{8 * time.Second, "put", "d", "d1"}, repOp{8100 * ms, "put", "e", "e1"}), 0, 0)
	return out
}

type faultVec map[int]int

func (f faultVec) String() string {
	var s []string
	for i := 0; i < faultConns*faultMsgs; i++ {
		if k, ok := f[i]; ok {
			s = append(s, fmt.Sprintf("%s@c%d.m%d", faultNames[k], i/faultMsgs, i%faultMsgs))
		}
	}
	if len(s) == 0 {
		return "no faults"
	}
	return strings.Join(s, ",")
}

// faultVectors: every assignment of <=maxFaults faults to the positions that exist in the fault-free run.
func faultVectors(positions []int, maxFaults int) []faultVec {
	out := []faultVec{{}}
	if maxFaults >= 1 {
		for _, i := range positions {
			for k := 1; k < nFaultKinds; k++ {
				out = append(out, faultVec{i: k})
			}
		}
	}
	if maxFaults >= 2 {
		for a, i := range positions {
			for _, j := range positions[a+1:] {
				for k := 1; k < nFaultKinds; k++ {
					for l := 1; l < nFaultKinds; l++ {
						out = append(out, faultVec{i: k, j: l})
					}
				}
			}
		}
	}
	return out
}

// repUnit evaluates one scenario shard for property prop ("C13" or "C14").
func repUnit(prop, unit string, env *fw.Env) *fw.Result {
	res := fw.NewResult()
	parts := strings.Split(unit, "/")
	name := parts[0]
	var shard, nsh, maxFaults int
	fmt.Sscanf(parts[1], "%d", &maxFaults)
	fmt.Sscanf(parts[2], "%d", &shard)
	fmt.Sscanf(parts[3], "%d", &nsh)
	var sc *repScenario
	for _, s := range repScenarios(true) {
		if s.Name == name {
			s := s
			sc = &s
		}
	}
	if sc == nil {
		res.HarnessErr = "unknown scenario " + name
		return res
	}
	root := fw.Scratch("rep")
	defer os.RemoveAll(root)
	dir := filepath.Join(root, "x")
	// fault-free run first: number of sends
	base, out, detail := runRep(dir, *sc, nil)
	os.RemoveAll(dir)
	if out != vsched.OK {
		res.Violate(fw.FP(prop, name, out.String()), fmt.Sprintf("[%s] fault-free run: %s: %s", name, out, clipS(detail, 600)), unit, map[string]any{"kind": "replication", "scenario": name, "faults": "none"})
		return res
	}
	// positions: the first messages of the first connections of the fault-free run (plus one more connection:
	// a fault usually costs a reconnect)
	var positions []int
	seen := map[int]bool{}
	maxConn := 0
	for _, l := range base.Log {
		var idx, c, m int
		if n, _ := fmt.Sscanf(l, "send#%d c%d.m%d", &idx, &c, &m); n == 3 {
			if p := faultPos(c, m); p >= 0 && !seen[p] {
				seen[p] = true
				positions = append(positions, p)
			}
			if c > maxConn {
				maxConn = c
			}
		}
	}
	for m := 0; m < faultMsgs; m++ {
		if p := faultPos(maxConn+1, m); p >= 0 && !seen[p] {
			seen[p] = true
			positions = append(positions, p)
		}
	}
	sort.Ints(positions)
	vecs := faultVectors(positions, maxFaults)
	for vi, fv := range vecs {
		if vi%nsh != shard {
			continue
		}
		if env.Expired() {
			res.Exhaustive = false
			res.Caps = append(res.Caps, fmt.Sprintf("%s: stopped at fault vector %d of %d", unit, vi, len(vecs)))
			break
		}
		fw.Progress(fmt.Sprintf("replication %s faults=%s", name, fv))
		r, out, detail := runRep(dir, *sc, fv)
		os.RemoveAll(dir)
		res.Evaluations++
		res.Traces++
		res.States++
		res.Transitions += len(r.Log)
		if len(fv) > 0 {
			res.Nontrivial++
		}
		viol := func(class, what string) {
			if sc.Restart > 0 && (class == "entry-re-applied" || class == "applied-more-than-written") {
				// one root cause: a restarted replica does not know its applied position and streams from sequence 1 again
				class = "restart-reapplies-history"
			}
			res.Violate(fw.FP(prop, repClassKey(name), class), fmt.Sprintf("[%s, %s] %s", name, fv, what), unit,
				map[string]any{"kind": "replication", "scenario": name, "faults": fv.String(), "class": class, "link_log": tailS(r.Log, 40)})
		}
		if out != vsched.OK {
			viol(out.String(), out.String()+": "+clipS(detail, 500))
			continue
		}
		if strings.HasPrefix(r.Problem, "HARNESS") {
			res.HarnessErr = r.Problem
			return res
		}
		if prop == "C13" && sc.ViaManager {
			// the manager applies through its own applier: the applied log is not recorded, only C14's oracle applies
			continue
		}
		if prop == "C13" {
			if r.LogReadBack != "" {
				viol("primary-log-read-back-differs", "primary-log-read-back-differs\n"+r.LogReadBack)
			}
			if p := checkAppliedPrefix(r.History, r.Applied); p != "" {
				viol(firstLine(p), p)
			}
			for i := 1; i < len(r.LastApplied); i++ {
				if r.LastApplied[i] < r.LastApplied[i-1] && sc.Restart == 0 {
					viol("applied-sequence-decreased", fmt.Sprintf("applied-sequence-decreased\nGetLastAppliedSequence went from %d to %d", r.LastApplied[i-1], r.LastApplied[i]))
					break
				}
			}
			var maxApplied uint64
			for _, a := range r.Applied {
				if a.Seq > maxApplied {
					maxApplied = a.Seq
				}
			}
			if n := len(r.LastApplied); n > 0 && r.LastApplied[n-1] > maxApplied {
				viol("applied-sequence-ahead", fmt.Sprintf("applied-sequence-ahead\nthe replica reports applied sequence %d but the highest entry it applied is %d", r.LastApplied[n-1], maxApplied))
			}
		} else {
			if len(r.PutErrs) > 0 {
				viol("primary-write-failed", "primary-write-failed\n"+strings.Join(r.PutErrs, "; "))
			}
			if !r.Converged {
				viol("not-converged", fmt.Sprintf("not-converged\n%v after the last write and with the link up the replica shows %s, the primary %s (applied %d of %d entries)", sc.Settle, viewString(r.Replica), viewString(r.Primary), len(r.Applied), len(r.History)))
			}
		}
		if len(res.Samples) < 2 {
			res.Sample(map[string]any{"scenario": name, "faults": fv.String(), "link_log": head(r.Log, 12), "applied": len(r.Applied), "history": len(r.History), "converged": r.Converged})
		}
	}
	return res
}

// repClassKey: the codec variants of a scenario share the root causes
func repClassKey(name string) string { return strings.TrimSuffix(name, "-nocodec") }

func repUnits(tier string) []string {
	var us []string
	mf := 1
	if tier == "thorough" {
		mf = 2
	}
	for _, sc := range repScenarios(tier == "thorough") {
		n := 2
		if mf == 2 {
			n = 16
		}
		for s := 0; s < n; s++ {
			us = append(us, fmt.Sprintf("%s/%d/%d/%d", sc.Name, mf, s, n))
		}
	}
	return us
}

func init() {
	rule := "deterministic fair executions (discrete-event virtual time: timers, tickers, deadlines and sleeps fire in due-time order) of the real replication.Primary (on a real engine, registered as log observer, heartbeat and poll loops running) and the real replication.Replica (state machine, batch applier, engine applier on a second real read-only engine) over an in-memory link that replaces gRPC; 43 scenarios = {a primary whose memtable is full after every write (rotation and flush driven by the data), a primary whose log runs without sync / with batched sync (writes ending in a transaction, a late transaction, join after the writes), a replica run and restarted (engine included) by the real replication.Manager after a transaction, 360 KB of large values with a transaction across the primary's batch size, flushes in a row (log files without entries), a rejected (oversized) transaction between writes, single writes incl. delete, a 3-entry transaction, flushes with log rotation, a single write, writes arriving alone after the replica caught up, a 130-entry transaction (more than one stream message carries)} x replica joins before / during / after the writes or is restarted x {default primary configuration, no compression}; for each, every fault vector with <=1 fault (quick) / <=2 faults (thorough) from {drop, duplicate, late duplicate, reorder by one or two messages, connection break} on the first 3 messages of the first 4 connections (the replica of this tree reads one message per connection and reconnects). "
	fw.Register(&fw.Check{
		ID: "C13", Level: "model_checking",
		Rule:        rule + "Oracle C13: the sequence of entries handed to the replica's engine (recording applier) equals the primary's log, in order, none skipped, none applied twice; the reported applied sequence never decreases and never exceeds the highest applied entry. Non-trivial = executions with at least one fault. Part B (every delivery sequence): explicit-state search over the real WALBatchApplier and over the real Replica message handler (uncompressed, and with ZSTD / Snappy compressed payloads as the protocol allows); a transition delivers one batch [i..j] of a 5-sequence history (15 batches of whole sequences, one a two-entry transaction, real wire encoding), successors by replay on a fresh instance, state = (entries applied, expected next, reported sequence), depth 5 quick / 7 thorough; after every delivery: applied entries = history prefix in order exactly once, reported sequence monotone and not ahead, a batch that continues at the expected sequence is applied completely, any other batch applies nothing and leaves the position alone, a forward gap is answered with a retransmission request from the expected sequence. Target replica-applyfail (depth one less): the same deliveries, each also with the replica's local applier refusing the k-th entry of the message for as long as the message is handled (every k); a retransmission may then repeat entries, but no entry may be applied before all entries ahead of it, the reported sequence never decreases and covers applied entries only",
		Assumptions: []string{"gRPC is replaced by an in-memory stream with the same blocking behaviour (bounded window) and message copying", "part B delivers batches of whole sequences only (a transaction is not split across messages)", "timer races are not explored in these runs (due-time order); they are explored in the explore-based checks"},
		Units:       func(tier string) []string { return append([]string{"deliveries/applier", "deliveries/replica", "deliveries/replica-zstd", "deliveries/replica-snappy", "deliveries/replica-applyfail"}, repUnits(tier)...) },
		Run: func(unit string, env *fw.Env) *fw.Result {
			if strings.HasPrefix(unit, "deliveries/") {
				return delivUnit(unit, env)
			}
			return repUnit("C13", unit, env)
		},
		Replay:      func(v *fw.Violation) string { b, _ := json.Marshal(v.Witness); return "re-run: kvcheck one C13 quick " + v.Unit + "\nwitness: " + string(b) },
		BudgetQuick: 110, BudgetThorough: 900,
	})
	fw.Register(&fw.Check{
		ID: "C14", Level: "model_checking",
		Rule:        rule + "Oracle C14: 20 virtual seconds after the last write (writer stopped, no further faults) the replica's visible state equals the primary's and is still equal 5 s later; primary writes never fail. Non-trivial = executions with at least one fault",
		Assumptions: []string{"'bounded time' is decided as 20 s of virtual time under the fair continuation", "gRPC replaced by an in-memory stream"},
		Units:       repUnits,
		Run:         func(unit string, env *fw.Env) *fw.Result { return repUnit("C14", unit, env) },
		Replay:      func(v *fw.Violation) string { b, _ := json.Marshal(v.Witness); return "re-run: kvcheck one C14 quick " + v.Unit + "\nwitness: " + string(b) },
		BudgetQuick: 110, BudgetThorough: 900,
	})
	_ = replication.NewEngineApplier
	_ = wal.OpTypePut
}

// DebugRep runs one scenario without faults and prints the link log and the tail of the trace (debugging aid).
func DebugRep(name string, maxSteps int) string {
	for _, sc := range repScenarios(true) {
		if sc.Name == name {
			dir := filepath.Join(fw.Scratch("repdbg"), "x")
			var r *repResult
			s := vsched.Run(vsched.Config{Bound: 0, Timed: true, MaxSteps: maxSteps, Trace: true}, func() {})
			_ = s
			debugMaxSteps = maxSteps
			var fv faultVec
			if f := os.Getenv("VERIF_FAULTS"); f != "" {
				// e.g. "2:dup-late,3:drop"
				fv = faultVec{}
				for _, p := range strings.Split(f, ",") {
					var i int
					var k string
					fmt.Sscanf(strings.Replace(p, ":", " ", 1), "%d %s", &i, &k)
					for ki, n := range faultNames {
						if n == k {
							fv[i] = ki
						}
					}
				}
			}
			r, out, detail := runRep(dir, sc, fv)
			return fmt.Sprintf("outcome %v %s\nlog:\n  %s\napplied %v\nhistory %v\nconverged %v primary %v replica %v\ntrace tail:\n  %s", out, clipS(detail, 300), strings.Join(r.Log, "\n  "), r.Applied, r.History, r.Converged, r.Primary, r.Replica, strings.Join(tailS(debugTrace, 80), "\n  "))
		}
	}
	return "unknown"
}

var debugMaxSteps int
var debugTrace []string
