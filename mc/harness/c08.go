package harness

import (
	"encoding/json"
	"fmt"
	"strings"

	"github.com/KevoDB/kevo/pkg/engine/storage"
	"github.com/KevoDB/kevo/pkg/wal"
	"verif/mc/explore"
	"verif/mc/fw"
)

// C08 — write sequence numbers strictly increase for the life of the database.

func c08Alphabet() []EngOp {
	return []EngOp{
		{Kind: "put", Key: "a"},
		{Kind: "del", Key: "a"},
		{Kind: "put", Key: "b"},
		{Kind: "txc", Sub: []EngOp{{Kind: "put", Key: "a"}, {Kind: "put", Key: "b"}, {Kind: "del", Key: "c"}}},
		{Kind: "txc", Sub: []EngOp{{Kind: "put", Key: "b"}}},
		{Kind: "flush"}, {Kind: "bg"}, {Kind: "reopen"},
	}
}

// expected writes of a program in issue order: each is a list of (type,key)
func progWrites(prog []EngOp) [][]string {
	var w [][]string
	for _, o := range prog {
		switch o.Kind {
		case "put":
			w = append(w, []string{"put:" + o.Key})
		case "del":
			w = append(w, []string{"del:" + o.Key})
		case "txc":
			// the buffer keeps the last operation per key and commits in key order
			last := map[string]string{}
			for _, s := range o.Sub {
				last[s.Key] = s.Kind + ":" + s.Key
			}
			var ks []string
			for k := range last {
				ks = append(ks, k)
			}
			sortStrings(ks)
			var b []string
			for _, k := range ks {
				b = append(b, last[k])
			}
			if len(b) > 0 {
				w = append(w, b)
			}
		}
	}
	return w
}

func c08Oracle(r *EngRun, prog []EngOp) string {
	// (c) the reported last sequence never decreases, also across reopen
	for i := 1; i < len(r.Seqs); i++ {
		if r.Seqs[i] < r.Seqs[i-1] {
			return fmt.Sprintf("stat-decreased\nstorage_last_sequence went from %d to %d at step %d (%s)", r.Seqs[i-1], r.Seqs[i], i+1, prog[i])
		}
	}
	if len(r.Errs) > 0 {
		return "operation-failed\n" + strings.Join(r.Errs, "; ")
	}
	// close so that buffered log data reaches the files, then read the log directory back
	sm := r.Eng.VerifStorage().(*storage.Manager)
	dir := sm.VerifWALDir()
	r.Eng.Close()
	var got []walEnt
	if _, err := wal.ReplayWALDir(dir, func(e *wal.Entry) error {
		got = append(got, walEnt{Type: e.Type, Key: e.Key, Seq: e.SequenceNumber})
		return nil
	}); err != nil {
		return "log-unreadable\n" + err.Error()
	}
	want := progWrites(prog)
	i := 0
	var prev uint64
	for wi, w := range want {
		for j, x := range w {
			if i >= len(got) {
				return fmt.Sprintf("log-missing-write\nwrite %d (%v) is not in the log (log has %d entries)", wi, w, len(got))
			}
			g := got[i]
			t := "put"
			if g.Type == wal.OpTypeDelete {
				t = "del"
			}
			if t+":"+string(g.Key) != x {
				return fmt.Sprintf("log-order\nlog entry %d is %s:%s, expected %s (write %d)", i, t, g.Key, x, wi)
			}
			if j == 0 {
				if wi > 0 && g.Seq <= prev {
					return fmt.Sprintf("seq-not-increasing\nwrite %d (%v) is stamped %d, an earlier acknowledged write is stamped %d", wi, w, g.Seq, prev)
				}
				prev = g.Seq
			} else if g.Seq != prev {
				return fmt.Sprintf("batch-seq-split\nentry %d of batch %v is stamped %d, the batch started with %d", j, w, g.Seq, prev)
			}
			i++
		}
	}
	if i != len(got) {
		return fmt.Sprintf("log-extra\nlog holds %d entries, the program wrote %d", len(got), i)
	}
	if n := len(r.Seqs); n > 0 && len(want) > 0 && r.Seqs[n-1] < prev {
		return fmt.Sprintf("stat-behind\nstorage_last_sequence reports %d, the last write is stamped %d", r.Seqs[n-1], prev)
	}
	return ""
}

func c08Unit(unit string, env *fw.Env) *fw.Result {
	res := fw.NewResult()
	parts := strings.Split(unit, "/")
	var depth, first int
	fmt.Sscanf(parts[2], "%d", &depth)
	fmt.Sscanf(parts[3], "%d", &first)
	alpha := c08Alphabet()
	sp := &seqxSpec{Prop: "C08", Cfg: engCfgs[parts[1]], Alphabet: alpha, Depth: depth, Oracle: c08Oracle}
	seqxRun(sp, []EngOp{alpha[first]}, env, unit, res)
	return res
}

func init() {
	fw.Register(&fw.Check{
		ID:    "C08",
		Level: "model_checking",
		Rule: "explicit-state search over engine programs {put a, del a, put b, 3-entry commit, 1-entry commit, flush, bg, reopen} up to the depth per configuration (memtable 32 MiB / 1 B / 40 B; wal_max_size 1 B so that every reopening starts a new log file instead of continuing the newest one); after each program: storage_last_sequence sampled after every step never decreases (also across reopen) and is not behind the last stamp; the log directory read back in file order holds exactly the program's writes in issue order, every write stamped strictly higher than every earlier one, all entries of one batch stamped alike. Concurrent part: stateless exploration (deviation bound 2 quick / 3 thorough, one less for the three-thread scenario) of 4 scenarios in which two client threads write while a flush rotates the log (explicit flush caller, or memtable size 1 B); oracle on every execution: the stamp (read back from the log) of every acknowledged write is strictly greater than the stamp of every write acknowledged before it started. Crash recoveries are covered by C02's enumeration, which applies the same stamp rule after recovery. Non-trivial = programs with >=2 steps",
		Assumptions: []string{"the stamp of a write is read from the log, which is what replication ships"},
		Units: func(tier string) []string {
			var us []string
			depth := map[string]int{"big": 6, "tiny": 5, "two": 5, "norw": 5}
			if tier == "thorough" {
				depth = map[string]int{"big": 7, "tiny": 6, "two": 6, "tiny2": 6, "bigN": 6, "norw": 6}
			}
			for _, cfg := range sortedKeys(depth) {
				for i := 0; i < 5; i++ { // programs start with a write
					us = append(us, fmt.Sprintf("prog/%s/%d/%d", cfg, depth[cfg], i))
				}
			}
			// concurrent part: the scenarios of C06 that write from two threads around a rotation
			b := 2
			if tier == "thorough" {
				b = 3
			}
			for _, sc := range c08ConcScenarios() {
				bb, n := b, 8
				if sc.Name == "rotate-vs-puts" {
					bb, n = b-1, 16
				}
				us = append(us, shardUnits(sc.Name, bb, n)...)
			}
			return us
		},
		Run: func(unit string, env *fw.Env) *fw.Result {
			if strings.HasPrefix(unit, "prog/") {
				return c08Unit(unit, env)
			}
			sp := parseSched(unit)
			for _, sc := range c08ConcScenarios() {
				if sc.Name == sp.Name {
					return runSched("C08", sc, sp, env, 2)
				}
			}
			r := fw.NewResult()
			r.HarnessErr = "unknown unit " + unit
			return r
		},
		Replay: func(v *fw.Violation) string {
			if w, ok := v.Witness.(map[string]any); ok && w["kind"] == "schedule" {
				return replaySched(func(n string) *explore.Scenario {
					for _, sc := range c08ConcScenarios() {
						if sc.Name == n {
							return sc
						}
					}
					return nil
				}, v)
			}
			b, _ := json.Marshal(v.Witness)
			return "re-run: kvcheck one C08 quick " + v.Unit + "\nwitness: " + string(b)
		},
		BudgetQuick: 110, BudgetThorough: 900,
	})
}
