package harness

import (
	"context"
	"path/filepath"
	"time"

	"github.com/KevoDB/kevo/pkg/engine"
	"github.com/KevoDB/kevo/pkg/replication"
	"github.com/KevoDB/kevo/pkg/zzverif/vsched"
	"github.com/KevoDB/kevo/pkg/zzverif/vtime"
	rp "github.com/KevoDB/kevo/proto/kevo/replication"
	"google.golang.org/grpc/metadata"
	"encoding/json"
	"fmt"
	"strings"

	"github.com/KevoDB/kevo/pkg/engine/storage"
	"github.com/KevoDB/kevo/pkg/wal"
	"verif/mc/explore"
	"verif/mc/fw"
)

// C08 — write sequence numbers strictly increase for the life of the database.

func c08Alphabet() []EngOp {
	return []EngOp{
		{Kind: "put", Key: "a"},
		{Kind: "del", Key: "a"},
		{Kind: "put", Key: "b"},
		{Kind: "txc", Sub: []EngOp{{Kind: "put", Key: "a"}, {Kind: "put", Key: "b"}, {Kind: "del", Key: "c"}}},
		{Kind: "txc", Sub: []EngOp{{Kind: "put", Key: "b"}}},
		{Kind: "flush"}, {Kind: "bg"}, {Kind: "reopen"},
		// the engine's raw batch call: a batch of two entries, and a batch without entries (writes nothing, stamps nothing)
		{Kind: "abatch", Sub: []EngOp{{Kind: "put", Key: "a"}, {Kind: "del", Key: "b"}}},
		{Kind: "abatch"},
	}
}

// expected writes of a program in issue order: each is a list of (type,key)
func progWrites(prog []EngOp) [][]string {
	var w [][]string
	for _, o := range prog {
		switch o.Kind {
		case "put":
			w = append(w, []string{"put:" + o.Key})
		case "del":
			w = append(w, []string{"del:" + o.Key})
		case "abatch":
			var b []string
			for _, s := range o.Sub {
				b = append(b, s.Kind+":"+s.Key)
			}
			if len(b) > 0 {
				w = append(w, b)
			}
		case "txc":
			// the buffer keeps the last operation per key and commits in key order
			last := map[string]string{}
			for _, s := range o.Sub {
				last[s.Key] = s.Kind + ":" + s.Key
			}
			var ks []string
			for k := range last {
				ks = append(ks, k)
			}
			sortStrings(ks)
			var b []string
			for _, k := range ks {
				b = append(b, last[k])
			}
			if len(b) > 0 {
				w = append(w, b)
			}
		}
	}
	return w
}

func c08Oracle(r *EngRun, prog []EngOp) string {
	// (c) the reported last sequence never decreases, also across reopen
	for i := 1; i < len(r.Seqs); i++ {
		if r.Seqs[i] < r.Seqs[i-1] {
			return fmt.Sprintf("stat-decreased\nstorage_last_sequence went from %d to %d at step %d (%s)", r.Seqs[i-1], r.Seqs[i], i+1, prog[i])
		}
	}
	if len(r.Errs) > 0 {
		return "operation-failed\n" + strings.Join(r.Errs, "; ")
	}
	// close so that buffered log data reaches the files, then read the log directory back
	sm := r.Eng.VerifStorage().(*storage.Manager)
	dir := sm.VerifWALDir()
	r.Eng.Close()
	var got []walEnt
	if _, err := wal.ReplayWALDir(dir, func(e *wal.Entry) error {
		got = append(got, walEnt{Type: e.Type, Key: e.Key, Seq: e.SequenceNumber})
		return nil
	}); err != nil {
		return "log-unreadable\n" + err.Error()
	}
	want := progWrites(prog)
	i := 0
	var prev uint64
	for wi, w := range want {
		for j, x := range w {
			if i >= len(got) {
				return fmt.Sprintf("log-missing-write\nwrite %d (%v) is not in the log (log has %d entries)", wi, w, len(got))
			}
			g := got[i]
			t := "put"
			if g.Type == wal.OpTypeDelete {
				t = "del"
			}
			if t+":"+string(g.Key) != x {
				return fmt.Sprintf("log-order\nlog entry %d is %s:%s, expected %s (write %d)", i, t, g.Key, x, wi)
			}
			if j == 0 {
				if wi > 0 && g.Seq <= prev {
					return fmt.Sprintf("seq-not-increasing\nwrite %d (%v) is stamped %d, an earlier acknowledged write is stamped %d", wi, w, g.Seq, prev)
				}
				prev = g.Seq
			} else if g.Seq != prev {
				return fmt.Sprintf("batch-seq-split\nentry %d of batch %v is stamped %d, the batch started with %d", j, w, g.Seq, prev)
			}
			i++
		}
	}
	if i != len(got) {
		return fmt.Sprintf("log-extra\nlog holds %d entries, the program wrote %d", len(got), i)
	}
	if n := len(r.Seqs); n > 0 && len(want) > 0 && r.Seqs[n-1] < prev {
		return fmt.Sprintf("stat-behind\nstorage_last_sequence reports %d, the last write is stamped %d", r.Seqs[n-1], prev)
	}
	return ""
}

func c08Unit(unit string, env *fw.Env) *fw.Result {
	res := fw.NewResult()
	parts := strings.Split(unit, "/")
	var depth, first int
	fmt.Sscanf(parts[2], "%d", &depth)
	fmt.Sscanf(parts[3], "%d", &first)
	alpha := c08Alphabet()
	sp := &seqxSpec{Prop: "C08", Cfg: engCfgs[parts[1]], Alphabet: alpha, Depth: depth, Oracle: c08Oracle}
	seqxRun(sp, []EngOp{alpha[first]}, env, unit, res)
	return res
}

func init() {
	fw.Register(&fw.Check{
		ID:    "C08",
		Level: "model_checking",
		Rule: "explicit-state search over engine programs {put a, del a, put b, 3-entry commit, 1-entry commit, flush, bg, reopen, raw 2-entry batch, raw batch without entries} up to the depth per configuration (memtable 32 MiB / 1 B / 40 B; wal_max_size 1 B so that every reopening starts a new log file instead of continuing the newest one); after each program: storage_last_sequence sampled after every step never decreases (also across reopen) and is not behind the last stamp; the log directory read back in file order holds exactly the program's writes in issue order, every write stamped strictly higher than every earlier one, all entries of one batch stamped alike. Concurrent part: stateless exploration (deviation bound 2 quick / 3 thorough, one less for the three-thread scenario) of 4 scenarios in which two client threads write while a flush rotates the log (explicit flush caller, or memtable size 1 B), and one (one deviation less) with a replication primary attached to the log whose reported last sequence is sampled after every client write and at the end and must never decrease; oracle on every execution: the stamp (read back from the log) of every acknowledged write is strictly greater than the stamp of every write acknowledged before it started. Retention: real engine + real replication.Primary + one in-memory replica session, 3 variants (everything acknowledged / one behind / everything acknowledged and 25 h old): writes, flush, the acknowledgement (which runs the primary's log retention), restart, one more write - the reported last sequence does not drop, the new write is stamped above the old ones and is read back. Crash recoveries are covered by C02's enumeration, which applies the same stamp rule after recovery. Non-trivial = programs with >=2 steps",
		Assumptions: []string{"the stamp of a write is read from the log, which is what replication ships"},
		Units: func(tier string) []string {
			var us []string
			depth := map[string]int{"big": 6, "tiny": 5, "two": 5, "norw": 5}
			if tier == "thorough" {
				depth = map[string]int{"big": 7, "tiny": 6, "two": 6, "tiny2": 6, "bigN": 6, "norw": 6}
			}
			for _, cfg := range sortedKeys(depth) {
				for i := 0; i < 5; i++ { // programs start with a write (the raw batches come later in the alphabet)
					us = append(us, fmt.Sprintf("prog/%s/%d/%d", cfg, depth[cfg], i))
				}
			}
			us = append(us, "retention/acked-all", "retention/acked-one-behind", "retention/acked-all-aged")
			// concurrent part: the scenarios of C06 that write from two threads around a rotation
			b := 2
			if tier == "thorough" {
				b = 3
			}
			for _, sc := range c08ConcScenarios() {
				bb, n := b, 8
				if sc.Name == "rotate-vs-puts" {
					bb, n = b-1, 16
				}
				if sc.Name == "flush-active-vs-put-primary" {
					bb, n = b-1, 8 // the primary's own threads widen every interleaving
				}
				us = append(us, shardUnits(sc.Name, bb, n)...)
			}
			return us
		},
		Run: func(unit string, env *fw.Env) *fw.Result {
			if strings.HasPrefix(unit, "prog/") {
				return c08Unit(unit, env)
			}
			if strings.HasPrefix(unit, "retention/") {
				return c08RetentionUnit(unit, env)
			}
			sp := parseSched(unit)
			for _, sc := range c08ConcScenarios() {
				if sc.Name == sp.Name {
					return runSched("C08", sc, sp, env, 2)
				}
			}
			r := fw.NewResult()
			r.HarnessErr = "unknown unit " + unit
			return r
		},
		Replay: func(v *fw.Violation) string {
			if w, ok := v.Witness.(map[string]any); ok && w["kind"] == "schedule" {
				return replaySched(func(n string) *explore.Scenario {
					for _, sc := range c08ConcScenarios() {
						if sc.Name == n {
							return sc
						}
					}
					return nil
				}, v)
			}
			b, _ := json.Marshal(v.Witness)
			return "re-run: kvcheck one C08 quick " + v.Unit + "\nwitness: " + string(b)
		},
		BudgetQuick: 110, BudgetThorough: 900,
	})
}

// retention: the primary removes log files that every replica has acknowledged (and files older than its age limit)
// whenever an acknowledgement arrives. Whatever it removes, the database's sequence position must survive a restart.
// One controlled run per variant: real engine + real Primary + one in-memory replica session whose acknowledgements
// the harness sends; writes, a flush (rotation), the acknowledgement, restart, one more write.
func c08RetentionUnit(unit string, env *fw.Env) *fw.Result {
	res := fw.NewResult()
	variant := strings.TrimPrefix(unit, "retention/")
	dir := filepath.Join(fw.Scratch("c08r"), "db")
	var problem string
	s := vsched.Run(vsched.Config{Bound: 0, Timed: true, MaxSteps: 5_000_000, MaxTime: int64(200 * time.Hour)}, func() {
		r, err := newEngRun(dir, engCfgs["big"])
		if err != nil {
			problem = "HARNESS open: " + err.Error()
			return
		}
		prim, err := replication.NewPrimary(r.Eng.GetWAL(), nil)
		if err != nil {
			problem = "HARNESS primary: " + err.Error()
			r.Close()
			return
		}
		link := &repLink{p: prim}
		cl := &memClient{link: link}
		ctx, cancel := context.WithCancel(context.Background())
		st, err := cl.StreamWAL(ctx, &rp.WALStreamRequest{StartSequence: 1, ListenerAddress: "replica:1"})
		if err != nil {
			problem = "HARNESS stream: " + err.Error()
			return
		}
		md, _ := st.Header()
		actx := metadata.NewOutgoingContext(ctx, md)
		for i := 0; i < 3; i++ {
			if err := r.Eng.Put([]byte(fmt.Sprintf("k%d", i)), []byte("v")); err != nil {
				problem = "put-failed\n" + err.Error()
			}
		}
		before := r.lastSeqStat()
		if err := r.Eng.FlushImMemTables(); err != nil {
			problem = "flush-failed\n" + err.Error()
		}
		vsched.Quiesce()
		ack := uint64(3)
		switch variant {
		case "acked-one-behind":
			ack = 2
		case "acked-all-aged":
			vtime.Advance(25 * time.Hour) // beyond the primary's 24 h age limit
		}
		if _, err := cl.Acknowledge(actx, &rp.Ack{AcknowledgedUpTo: ack}); err != nil {
			problem = "ack-failed\n" + err.Error()
		}
		cancel()
		prim.Close()
		r.Eng.Close()
		e, err := engine.NewEngineFacade(dir)
		if err != nil {
			problem = "reopen-failed\n" + err.Error()
			return
		}
		r.Eng = e
		defer r.Close()
		after := r.lastSeqStat()
		if problem == "" && after < before {
			problem = fmt.Sprintf("stat-decreased\nstorage_last_sequence went from %d to %d across a restart that followed the primary's log retention (variant %s)", before, after, variant)
		}
		if err := r.Eng.Put([]byte("k0"), []byte("new")); err != nil {
			problem = "put-after-restart-failed\n" + err.Error()
			return
		}
		if problem == "" && r.lastSeqStat() <= before {
			problem = fmt.Sprintf("stamp-not-above-earlier-acknowledged-write\nthe write after the restart is stamped %d, writes before it were stamped up to %d (variant %s)", r.lastSeqStat(), before, variant)
		}
		if v, err := r.Eng.Get([]byte("k0")); problem == "" && (err != nil || string(v) != "new") {
			problem = fmt.Sprintf("latest-write-shadowed\nGet(k0) = %q, %v after Put(k0, new) (variant %s)", v, err, variant)
		}
	})
	res.Evaluations++
	res.States++
	res.Transitions += s.Steps
	res.Traces++
	res.Nontrivial++
	if s.Out != vsched.OK && problem == "" {
		problem = s.Out.String() + "\n" + s.Detail
	}
	if strings.HasPrefix(problem, "HARNESS") {
		res.HarnessErr = problem
		return res
	}
	if problem != "" {
		res.Violate(fw.FP("C08", "retention", variant, firstLine(problem)), "[retention "+variant+"] "+problem, unit, map[string]any{"kind": "retention", "variant": variant, "problem": problem})
	}
	return res
}

func (r *EngRun) lastSeqStat() uint64 {
	if st, ok := r.Eng.GetStats()["storage_last_sequence"].(uint64); ok {
		return st
	}
	return 0
}
