package harness

import (
	"bytes"
	"encoding/json"
	"fmt"
	"os"
	"path/filepath"
	"sort"
	"strings"
	"time"

	"github.com/KevoDB/kevo/pkg/compaction"
	"github.com/KevoDB/kevo/pkg/config"
	"github.com/KevoDB/kevo/pkg/engine"
	"github.com/KevoDB/kevo/pkg/sstable"
	"verif/mc/fw"
)

// C12 — compaction preserves content; deleted keys stay deleted.

type c12File struct {
	Level int
	Seq   int
	Fat   bool // values padded by 20 KB: the file outweighs a plain one by more than the compaction ratio (10)
}

var c12Shapes = map[string][]c12File{
	"L0x2":       {{Level: 0, Seq: 1}, {Level: 0, Seq: 2}},
	"L0x3":       {{Level: 0, Seq: 1}, {Level: 0, Seq: 2}, {Level: 0, Seq: 3}},
	"L0x2+L1":    {{Level: 1, Seq: 1}, {Level: 0, Seq: 1}, {Level: 0, Seq: 2}},
	"L0x2+L1+L2": {{Level: 2, Seq: 1}, {Level: 1, Seq: 1}, {Level: 0, Seq: 1}, {Level: 0, Seq: 2}},
	"L0+L1":      {{Level: 1, Seq: 1}, {Level: 0, Seq: 1}},
	"L0x3+L1":    {{Level: 1, Seq: 1}, {Level: 0, Seq: 1}, {Level: 0, Seq: 2}, {Level: 0, Seq: 3}},
	// a gap between the levels: the level below the compaction target is empty, an older version lives deeper
	"L0x2+L3": {{Level: 3, Seq: 1}, {Level: 0, Seq: 1}, {Level: 0, Seq: 2}},
	// size-ratio selections (a level outweighs the next one): level 0 -> 1 and level 1 -> 2
	"fatL0+L1":    {{Level: 1, Seq: 1}, {Level: 0, Seq: 1, Fat: true}},
	"fatL1+L2":    {{Level: 2, Seq: 1}, {Level: 1, Seq: 1, Fat: true}},
	"L0+fatL1+L2": {{Level: 2, Seq: 1}, {Level: 1, Seq: 1, Fat: true}, {Level: 0, Seq: 1}},
}

// files are listed oldest first in a shape; cells[file][key]
type c12Arr struct {
	Shape string
	Cells [][]int
}

var c12Keys = []string{"k1", "k2", "k3"}

func (a c12Arr) String() string {
	var fs []string
	for fi, f := range c12Shapes[a.Shape] {
		var cs []string
		for ki, c := range a.Cells[fi] {
			switch c {
			case 1:
				cs = append(cs, c12Keys[ki]+"=v")
			case 2:
				cs = append(cs, c12Keys[ki]+"=DEL")
			}
		}
		fs = append(fs, fmt.Sprintf("L%d#%d{%s}", f.Level, f.Seq, strings.Join(cs, ",")))
	}
	return strings.Join(fs, " ")
}

func c12Write(dir string, a c12Arr) error {
	for fi, f := range c12Shapes[a.Shape] {
		empty := true
		for _, c := range a.Cells[fi] {
			if c != 0 {
				empty = false
			}
		}
		if empty {
			continue
		}
		path := filepath.Join(dir, fmt.Sprintf("%d_%06d_%020d.sst", f.Level, f.Seq, 1000+fi))
		w, err := sstable.NewWriter(path)
		if err != nil {
			return err
		}
		for ki, c := range a.Cells[fi] {
			switch c {
			case 1:
				v := fmt.Sprintf("%s.f%d", c12Keys[ki], fi)
				if f.Fat {
					v += strings.Repeat("~", 20000)
				}
				w.AddWithSequence([]byte(c12Keys[ki]), []byte(v), uint64(fi*10+ki+1))
			case 2:
				w.AddWithSequence([]byte(c12Keys[ki]), nil, uint64(fi*10+ki+1))
			}
		}
		if err := w.Finish(); err != nil {
			return err
		}
	}
	return nil
}

type c12Ver struct {
	Level int
	Seq   uint64
	TS    int64
	Tomb  bool
	Val   string
}

// c12View reads every table file of dir and returns the newest-wins view (and problems with the files themselves).
func c12View(dir string) (map[string]string, map[string]bool, string) {
	ents, err := os.ReadDir(dir)
	if err != nil {
		return nil, nil, "read-dir\n" + err.Error()
	}
	best := map[string]c12Ver{}
	amb := ""
	type fileKeys struct {
		level int
		keys  map[string]bool
		name  string
	}
	var perFile []fileKeys
	for _, e := range ents {
		if !strings.HasSuffix(e.Name(), ".sst") {
			continue
		}
		var lvl int
		var seq uint64
		var ts int64
		if n, _ := fmt.Sscanf(e.Name(), "%d_%06d_%020d.sst", &lvl, &seq, &ts); n != 3 {
			continue
		}
		r, err := sstable.OpenReader(filepath.Join(dir, e.Name()))
		if err != nil {
			return nil, nil, "unreadable-file\n" + e.Name() + ": " + err.Error()
		}
		it := r.NewIterator()
		var prev []byte
		fk := fileKeys{level: lvl, keys: map[string]bool{}, name: e.Name()}
		for it.SeekToFirst(); it.Valid(); it.Next() {
			k := append([]byte{}, it.Key()...)
			if prev != nil && bytes.Compare(prev, k) >= 0 {
				r.Close()
				return nil, nil, fmt.Sprintf("output-unsorted\nfile %s holds %q after %q", e.Name(), k, prev)
			}
			prev = k
			fk.keys[string(k)] = true
			v := c12Ver{Level: lvl, Seq: seq, TS: ts, Tomb: it.IsTombstone(), Val: string(it.Value())}
			old, ok := best[string(k)]
			// newer: lower level; within level 0 higher file sequence, then later timestamp
			if !ok || v.Level < old.Level || (v.Level == old.Level && (v.Seq > old.Seq || (v.Seq == old.Seq && v.TS > old.TS))) {
				best[string(k)] = v
			}
		}
		r.Close()
		perFile = append(perFile, fk)
	}
	// two files of one level >= 1 holding the same key make the view ambiguous
	for i := range perFile {
		for j := i + 1; j < len(perFile); j++ {
			if perFile[i].level == perFile[j].level && perFile[i].level >= 1 {
				for k := range perFile[i].keys {
					if perFile[j].keys[k] {
						amb = fmt.Sprintf("overlapping-files-below-level-0\nfiles %s and %s of level %d both hold %q", perFile[i].name, perFile[j].name, perFile[i].level, k)
					}
				}
			}
		}
	}
	view := map[string]string{}
	tombs := map[string]bool{}
	for k, v := range best {
		if v.Tomb {
			tombs[k] = true
		} else {
			view[k] = v.Val
		}
	}
	return view, tombs, amb
}

func listSST(dir string) string {
	ents, _ := os.ReadDir(dir)
	var ns []string
	for _, e := range ents {
		if strings.HasSuffix(e.Name(), ".sst") {
			n := e.Name()
			ns = append(ns, n[:strings.LastIndex(n, "_")])
		}
	}
	sort.Strings(ns)
	return strings.Join(ns, " ")
}

// c12Eval runs one compaction action on one arrangement.
func c12Eval(root string, a c12Arr, action string, tracker string) (problem string) {
	defer func() {
		if r := recover(); r != nil {
			problem = fmt.Sprintf("panic\n%v", r)
		}
	}()
	dir := filepath.Join(root, "sst")
	os.RemoveAll(dir)
	os.MkdirAll(dir, 0755)
	if err := c12Write(dir, a); err != nil {
		return "HARNESS\n" + err.Error()
	}
	before, _, p := c12View(dir)
	if p != "" {
		return "HARNESS-" + p
	}
	cfg := config.NewDefaultConfig(root)
	cfg.SSTDir = dir
	cfg.MaxMemTables = 2
	opts := compaction.CompactionCoordinatorOptions{CompactionInterval: 3600}
	if tracker == "expired" {
		opts.TombstoneManager = compaction.NewTombstoneTracker(time.Nanosecond)
	}
	c := compaction.NewCompactionCoordinator(cfg, dir, opts)
	if err := c.Start(); err != nil {
		return "start-failed\n" + err.Error()
	}
	defer c.Stop()
	if tracker == "tracked" || tracker == "expired" {
		for fi := range a.Cells {
			for ki, cell := range a.Cells[fi] {
				if cell == 2 {
					c.TrackTombstone([]byte(c12Keys[ki]))
				}
			}
		}
	}
	files0 := listSST(dir)
	switch {
	case action == "trigger":
		for i := 0; i < 8; i++ {
			prev := listSST(dir)
			if err := c.TriggerCompaction(); err != nil {
				return "compaction-error\n" + err.Error()
			}
			// after every single cycle the view must be intact
			after, _, p := c12View(dir)
			if p != "" {
				return p
			}
			if d := diffView(before, after); d != "" {
				return fmt.Sprintf("%s\nafter compaction cycle %d (%s -> %s): %s", firstLine(d), i+1, prev, listSST(dir), d)
			}
			if listSST(dir) == prev {
				break
			}
			c12Effective++
		}
	case strings.HasPrefix(action, "range:"):
		b := strings.SplitN(action[6:], ",", 2)
		var lo, hi []byte
		if b[0] != "" {
			lo = []byte(b[0])
		}
		if b[1] != "" {
			hi = []byte(b[1])
		}
		if err := c.CompactRange(lo, hi); err != nil {
			return "compaction-error\n" + err.Error()
		}
		after, _, p := c12View(dir)
		if p != "" {
			return p
		}
		if d := diffView(before, after); d != "" {
			return fmt.Sprintf("%s\nafter CompactRange(%q,%q) (%s -> %s): %s", firstLine(d), lo, hi, files0, listSST(dir), d)
		}
	}
	return ""
}

func diffView(before, after map[string]string) string {
	for k, v := range before {
		g, ok := after[k]
		if !ok {
			return fmt.Sprintf("key-lost\nkey %q (=%q) is gone from the merged view", k, v)
		}
		if g != v {
			return fmt.Sprintf("older-version-wins\nkey %q reads %q, most recent write is %q", k, g, v)
		}
	}
	for k, g := range after {
		if _, ok := before[k]; !ok {
			return fmt.Sprintf("deleted-key-resurrected\nkey %q reads %q but its most recent write is a delete (or it was never written)", k, g)
		}
	}
	return ""
}

var c12Effective int // compaction cycles of "trigger" actions that changed the set of files (vacuity guard per shape)

var c12Actions = []string{"trigger", "range:,", "range:k1,k3", "range:k2,k2", "range:k0,k1", "range:k15,k25"}

func c12FileUnit(unit string, env *fw.Env) *fw.Result {
	res := fw.NewResult()
	parts := strings.Split(unit, "/")
	shape, tracker := parts[1], parts[2]
	var shard, nsh int
	fmt.Sscanf(parts[3], "%d", &shard)
	fmt.Sscanf(parts[4], "%d", &nsh)
	nk := 3
	if len(parts) > 5 {
		fmt.Sscanf(parts[5], "%d", &nk)
	}
	root := fw.Scratch("c12")
	defer os.RemoveAll(root)
	nf := len(c12Shapes[shape])
	total := 1
	for i := 0; i < nf*nk; i++ {
		total *= 3
	}
	for code := 0; code < total; code++ {
		if code%nsh != shard {
			continue
		}
		if env.Expired() {
			res.Exhaustive = false
			res.Caps = append(res.Caps, fmt.Sprintf("%s: stopped at arrangement %d of %d", unit, code, total))
			break
		}
		a := c12Arr{Shape: shape}
		c := code
		nonEmpty := 0
		for f := 0; f < nf; f++ {
			row := make([]int, 3)
			ne := false
			for k := 0; k < nk; k++ {
				row[k] = c % 3
				c /= 3
				if row[k] != 0 {
					ne = true
				}
			}
			if ne {
				nonEmpty++
			}
			a.Cells = append(a.Cells, row)
		}
		if nonEmpty < nf {
			continue // a table file cannot be empty; smaller shapes cover fewer files
		}
		for _, act := range c12Actions {
			fw.Progress(fmt.Sprintf("c12 %s %s %s", a.String(), act, tracker))
			res.Evaluations++
			res.States++
			res.Transitions++
			res.Traces++
			res.Nontrivial++
			if p := c12Eval(root, a, act, tracker); p != "" {
				kind := "trigger"
				if act != "trigger" {
					kind = "range"
				}
				res.Violate(fw.FP("C12", shape, tracker, kind, firstLine(p), a.String(), act), fmt.Sprintf("[%s tracker=%s] %s %s: %s", shape, tracker, a.String(), act, p), unit,
					map[string]any{"kind": "files", "shape": shape, "tracker": tracker, "arr": a, "action": act, "problem": p})
			}
		}
		if len(res.Samples) < 2 {
			res.Sample(map[string]any{"shape": shape, "tracker": tracker, "files": a.String()})
		}
	}
	res.Count("effective_trigger_cycles:"+shape, c12Effective)
	return res
}

func init() {
	fw.Register(&fw.Check{
		ID:    "C12",
		Level: "model_checking",
		Rule: "file level: every assignment {absent,value,tombstone} of 3 keys x files for 10 file-set shapes (2-3 level-0 files, optional level-1/level-2 file, one shape with empty levels between level 0 and an old level-3 file; three shapes with a file padded to outweigh the next level by more than the compaction ratio, so that the size-ratio selection level 0 -> 1 and level 1 -> 2 runs), each non-empty file written with the real SSTable writer; the real coordinator runs TriggerCompaction until it selects nothing (view checked after every cycle) and CompactRange for 5 ranges, with the tombstone tracker knowing the deletes / not knowing them (restart) / retention expired. Oracle: newest-wins merged view of all files on disk (lower level newer, within level 0 higher file number newer) is unchanged; outputs sorted and duplicate-free; no two files of a level >=1 hold the same key. Engine level and crash points: see units eng/ and crash/. Non-trivial = arrangements in which every file of the shape is non-empty",
		Assumptions: []string{"recency rule is the specification's (DESIGN §3 C12), not read off the implementation"},
		Units: func(tier string) []string {
			var us []string
			for _, sh := range sortedKeys(c12Shapes) {
				nsh := 1
				switch len(c12Shapes[sh]) {
				case 3:
					nsh = 4
				case 4:
					nsh = 16
				}
				if strings.HasPrefix(sh, "fat") {
					nsh = 4 // 20 KB values: slower per arrangement
				}
				trackers := []string{"tracked", "untracked"}
				if tier == "thorough" || len(c12Shapes[sh]) <= 2 {
					trackers = append(trackers, "expired")
				}
				nk := 3
				if tier != "thorough" && len(c12Shapes[sh]) == 4 {
					nsh, nk = 2, 2 // quick: 4-file shapes with 2 keys (3^8 arrangements), thorough: 3 keys (3^12)
				} else if len(c12Shapes[sh]) == 4 {
					nsh = 48
				}
				if tier != "thorough" && sh == "L0x2+L3" {
					nsh, nk = 2, 2
				}
				if tier != "thorough" && sh == "L0+fatL1+L2" {
					nsh, nk = 2, 2 // quick: 2 keys (3^6 arrangements)
				}
				for _, tr := range trackers {
					for s := 0; s < nsh; s++ {
						us = append(us, fmt.Sprintf("files/%s/%s/%d/%d/%d", sh, tr, s, nsh, nk))
					}
				}
			}
			us = append(us, c12EngUnits(tier)...)
			return us
		},
		Run: func(unit string, env *fw.Env) *fw.Result {
			if strings.HasPrefix(unit, "files/") {
				return c12FileUnit(unit, env)
			}
			return c12EngUnit(unit, env)
		},
		Replay: func(v *fw.Violation) string { b, _ := json.Marshal(v.Witness); return "re-run: kvcheck one C12 quick " + v.Unit + "\nwitness: " + string(b) },
		BudgetQuick: 150, BudgetThorough: 900,
	})
}

func c12Alphabet() []EngOp {
	return []EngOp{
		{Kind: "putF", Key: "a"}, {Kind: "delF", Key: "a"}, {Kind: "putF", Key: "b"}, {Kind: "delF", Key: "b"},
		{Kind: "compact"}, {Kind: "crange", Lo: "a", Hi: "a"}, {Kind: "reopen"}, {Kind: "clock"},
	}
}

var c12EngCfg = EngCfg{"l0x2", 32 << 20, 2, config.SyncImmediate, 0}

// engine-level oracle: reads = model now, after reopen, and after reopen with the flushed logs retired
func c12EngOracle(r *EngRun, prog []EngOp) string {
	keys := []string{"a", "b", "c"}
	check := func(phase string) string {
		if p := r.CheckGets(keys); p != "" {
			return phase + "-" + firstLine(p) + "\n" + phase + ": " + p
		}
		if p := r.CheckScan(); p != "" {
			return phase + "-" + firstLine(p) + "\n" + phase + ": " + p
		}
		return ""
	}
	if p := check("live"); p != "" {
		return p
	}
	if err := r.Apply(EngOp{Kind: "reopen"}); err != nil {
		return "reopen-failed\n" + err.Error()
	}
	if p := check("reopened"); p != "" {
		return p
	}
	// every write of these programs was flushed: the log files hold nothing the tables lack
	r.Eng.Close()
	retireLogs(r.Dir)
	e, err := engine.NewEngineFacade(r.Dir)
	if err != nil {
		return "reopen-failed\nafter log retirement: " + err.Error()
	}
	r.Eng = e
	if p := check("logs-retired"); p != "" {
		return p
	}
	// and compaction of what is there now still preserves it
	r.Apply(EngOp{Kind: "compact"})
	if p := check("logs-retired+compact"); p != "" {
		return p
	}
	return ""
}

func c12EngUnits(tier string) []string {
	var us []string
	depth := 4
	if tier == "thorough" {
		depth = 6
	}
	for i := 0; i < 4; i++ {
		for j := range c12Alphabet() {
			us = append(us, fmt.Sprintf("eng/%d/%d/%d", depth, i, j))
		}
	}
	for i := 0; i < 6; i++ {
		us = append(us, fmt.Sprintf("crash/%d/6", i))
	}
	return us
}

func c12EngUnit(unit string, env *fw.Env) *fw.Result {
	res := fw.NewResult()
	alpha := c12Alphabet()
	if strings.HasPrefix(unit, "eng/") {
		var depth, i, j int
		fmt.Sscanf(unit, "eng/%d/%d/%d", &depth, &i, &j)
		sp := &seqxSpec{Prop: "C12", Cfg: c12EngCfg, Alphabet: alpha, Depth: depth, Oracle: c12EngOracle}
		seqxRun(sp, []EngOp{alpha[i], alpha[j]}, env, unit, res)
		return res
	}
	// crash points inside compaction
	var shard, nsh int
	fmt.Sscanf(unit, "crash/%d/%d", &shard, &nsh)
	w := alpha[:4]
	sp := &c02Spec{Prop: "C12", Cfg: c12EngCfg, Keys: []string{"a", "b"}, Torn: true}
	n := 0
	for _, x := range w {
		for _, y := range w {
			for _, z := range append(append([]EngOp{}, w...), EngOp{Kind: "compact"}) {
				for _, last := range []EngOp{{Kind: "compact"}, {Kind: "crange", Lo: "a", Hi: "b"}} {
					n++
					if n%nsh != shard {
						continue
					}
					prog := []EngOp{x, y, z, last}
					sp.Depth = len(prog)
					c02Explore(sp, prog, env, unit, res)
				}
			}
		}
	}
	return res
}
