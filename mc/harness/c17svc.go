package harness

import (
	"bytes"
	"fmt"
	"path/filepath"
	"strings"

	"github.com/KevoDB/kevo/pkg/grpc/service"
	"github.com/KevoDB/kevo/pkg/transaction"
	"github.com/KevoDB/kevo/pkg/zzverif/vsched"
	pb "github.com/KevoDB/kevo/proto/kevo"
	"verif/mc/fw"
)

// ---- part A2: sequential request sequences on one remote transaction handle ----
//
// The same question as part A, asked through the network service with its registry in between, and with the
// requests a server rejects (empty key, key above the size limit, a value no log record can hold) in the alphabet:
// whatever the client sent, once it has finished or abandoned the transaction (rollback request, then the
// connection's cleanup) a writer is granted, and the data shows exactly the effect of a successful commit.
func c17SvcSeqUnit(unit string, env *fw.Env) *fw.Result {
	res := fw.NewResult()
	acts := []string{"get", "put", "del", "put-emptykey", "put-longkey", "del-emptykey", "get-emptykey", "putbig", "commit", "rollback"}
	depth := 3
	if env.Thorough {
		depth = 4
	}
	ro := strings.HasSuffix(unit, "/ro")
	dir := filepath.Join(fw.Scratch("c17s"), "db")
	var rec func(seq []string)
	rec = func(seq []string) {
		if env.Expired() {
			res.Exhaustive = false
			return
		}
		if len(seq) > 0 {
			var problem string
			prog := []EngOp{{Kind: "put", Key: "a", Val: "a0"}}
			out, detail := runEngProg(dir, engCfgs["big"], prog, func(r *EngRun, err error) {
				if err != nil {
					problem = "open-failed\n" + err.Error()
					return
				}
				srv := service.NewKevoServiceServer(r.Eng, transaction.NewRegistry(), nil)
				ctx := peerCtx("conn-S")
				b, err := srv.BeginTransaction(ctx, &pb.BeginTransactionRequest{ReadOnly: ro})
				if err != nil {
					problem = "begin-failed\n" + err.Error()
					return
				}
				id := b.TransactionId
				finished, hasBig := false, false
				model := cloneModel(r.Model)
				pending := cloneModel(r.Model)
				for i, a := range seq {
					switch a {
					case "get":
						srv.TxGet(ctx, &pb.TxGetRequest{TransactionId: id, Key: []byte("a")})
					case "put":
						v := []byte(fmt.Sprintf("w%d", i))
						if resp, err := srv.TxPut(ctx, &pb.TxPutRequest{TransactionId: id, Key: []byte("b"), Value: v}); err == nil && resp.Success && !finished {
							pending["b"] = v
						}
					case "del":
						if resp, err := srv.TxDelete(ctx, &pb.TxDeleteRequest{TransactionId: id, Key: []byte("a")}); err == nil && resp.Success && !finished {
							delete(pending, "a")
						}
					case "put-emptykey":
						srv.TxPut(ctx, &pb.TxPutRequest{TransactionId: id, Key: nil, Value: []byte("x")})
					case "put-longkey":
						srv.TxPut(ctx, &pb.TxPutRequest{TransactionId: id, Key: bytes.Repeat([]byte("K"), 4097), Value: []byte("x")})
					case "del-emptykey":
						srv.TxDelete(ctx, &pb.TxDeleteRequest{TransactionId: id, Key: nil})
					case "get-emptykey":
						srv.TxGet(ctx, &pb.TxGetRequest{TransactionId: id, Key: nil})
					case "putbig":
						if resp, err := srv.TxPut(ctx, &pb.TxPutRequest{TransactionId: id, Key: []byte("big"), Value: bytes.Repeat([]byte("B"), 40000)}); err == nil && resp.Success && !finished {
							hasBig = true
						}
					case "commit":
						resp, err := srv.CommitTransaction(ctx, &pb.CommitTransactionRequest{TransactionId: id})
						if !finished {
							if err == nil && resp.Success {
								if hasBig {
									problem = fmt.Sprintf("oversized-commit-accepted\ncommit of a remote transaction holding a 40000-byte value succeeded (sequence %v)", seq)
									return
								}
								model = pending
							}
							finished = true
						} else if err == nil && resp.Success {
							problem = fmt.Sprintf("double-finish\ncommit request on a finished handle reported success (sequence %v)", seq)
							return
						}
					case "rollback":
						resp, err := srv.RollbackTransaction(ctx, &pb.RollbackTransactionRequest{TransactionId: id})
						if finished && err == nil && resp.Success {
							problem = fmt.Sprintf("double-finish\nrollback request on a finished handle reported success (sequence %v)", seq)
							return
						}
						finished = true
					}
				}
				// the client ends whatever is still open, then its connection goes away
				if !finished {
					srv.RollbackTransaction(ctx, &pb.RollbackTransactionRequest{TransactionId: id})
				}
				srv.CleanupConnection("conn-S")
				// a writer is granted (a lock that was never released shows up as a deadlock of this probe)
				ptx, err := r.Eng.BeginTransaction(false)
				if err != nil {
					problem = "probe-failed\n" + err.Error()
					return
				}
				ptx.Rollback()
				r.Model = model
				if p := r.CheckGets([]string{"a", "b", "big"}); p != "" {
					problem = "finish-effect-" + firstLine(p) + "\nafter remote " + fmt.Sprint(seq) + ": " + p
				}
			})
			res.Evaluations++
			res.States++
			res.Transitions++
			res.Traces++
			if len(seq) >= 2 {
				res.Nontrivial++
			}
			if out != vsched.OK {
				problem = out.String() + "\n" + detail
			}
			if problem != "" {
				res.Violate(fw.FP("C17", "svcseq", firstLine(problem), fmt.Sprint(seq), fmt.Sprint(ro)), fmt.Sprintf("remote tx(ro=%v) %v: %s", ro, seq, problem), unit, map[string]any{"kind": "svc-tx-seq", "seq": seq, "ro": ro})
				return
			}
			if len(res.Samples) < 2 && len(seq) == depth {
				res.Sample(fmt.Sprintf("remote tx(ro=%v) %v", ro, seq))
			}
		}
		if len(seq) == depth {
			return
		}
		for _, a := range acts {
			rec(append(seq[:len(seq):len(seq)], a))
		}
	}
	rec(nil)
	return res
}
