package harness

import "verif/mc/explore"

// FindScenario looks a scheduler scenario up by name (debugging, replay).
func FindScenario(name string) *explore.Scenario {
	var all []*explore.Scenario
	all = append(all, c18Scenarios()...)
	all = append(all, c03Scenarios()...)
	all = append(all, c06Scenarios()...)
	all = append(all, c04Scenarios()...)
	all = append(all, c17Scenarios()...)
	all = append(all, c16Scenarios()...)
	all = append(all, c15Scenarios()...)
	all = append(all, c05Scenarios()...)
	for _, g := range c07Groups() {
		if g.Name == name {
			return c07Scenario(g)
		}
	}
	for _, sc := range all {
		if sc.Name == name {
			return sc
		}
	}
	return nil
}
