package harness
