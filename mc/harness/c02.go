package harness

import (
	"bytes"
	"encoding/json"
	"errors"
	"fmt"
	"os"
	"path/filepath"
	"sort"
	"strings"

	"crypto/sha256"

	"github.com/KevoDB/kevo/pkg/config"
	"github.com/KevoDB/kevo/pkg/engine"
	"github.com/KevoDB/kevo/pkg/wal"
	"github.com/KevoDB/kevo/pkg/zzverif/vos"
	"github.com/KevoDB/kevo/pkg/zzverif/vsched"
	"verif/mc/fw"
)

// C02 — acknowledged writes survive a crash; recovery yields a history prefix.

type crashRec struct {
	Log     []vos.Op
	Models  []map[string][]byte // Models[k] = model after k program steps
	Key     string
	Errs    []string
	Out     vsched.Outcome
	Detail  string
	Initial *memFS
	EndTime int64
}

func cloneModel(m map[string][]byte) map[string][]byte {
	c := map[string][]byte{}
	for k, v := range m {
		c[k] = v
	}
	return c
}

// recordProg runs prog under the deterministic scheduler with FS recording.
func recordProg(dir string, c EngCfg, prog []EngOp) *crashRec {
	os.RemoveAll(dir)
	os.MkdirAll(dir, 0755)
	writeManifest(dir, c)
	rec := &crashRec{Initial: newMemFS()}
	rec.Initial.loadDir(dir)
	vos.StartRecording(dir)
	s := vsched.Run(vsched.Config{Bound: 0, NoEnv: true, MaxSteps: 3_000_000}, func() {
		e, err := engine.NewEngineFacade(dir)
		if err != nil {
			rec.Errs = append(rec.Errs, "open: "+err.Error())
			return
		}
		r := &EngRun{Dir: dir, Cfg: c, Eng: e, Model: map[string][]byte{}}
		rec.Models = append(rec.Models, cloneModel(r.Model))
		for k, o := range prog {
			vos.Mark(fmt.Sprintf("issue:%d", k+1))
			err := r.Apply(o)
			if errors.Is(err, errReopen) {
				rec.Errs = append(rec.Errs, err.Error())
				return
			}
			vos.Mark(fmt.Sprintf("ack:%d", k+1))
			rec.Models = append(rec.Models, cloneModel(r.Model))
		}
		rec.Key = r.StateKey()
		rec.Errs = append(rec.Errs, r.Errs...)
		rec.Log = vos.StopRecording()
		r.Close()
	})
	if rec.Log == nil {
		rec.Log = vos.StopRecording()
	}
	rec.Out, rec.Detail = s.Out, s.Detail
	rec.EndTime = s.Now
	return rec
}

type crashCase struct {
	Cut  int `json:"cut"`  // number of log operations applied completely
	Torn int `json:"torn"` // bytes of operation Cut applied (-1: none)
}

// recoverAndCheck opens the crash state and checks it against the admissible models.
// Returns a problem ("" if fine) and the index of the matched model.
func recoverAndCheck(dst string, keys []string, models []map[string][]byte, lo, hi int, cont bool, startTime int64) (problem string, matched int) {
	// Recovery runs under the deterministic scheduler as well: an engine opened in pass-through mode would leave
	// free-running goroutines behind (flush loop) that call shims while a later scheduler is installed.
	// the clock of the restarted process is later than anything the crashed one saw (file names are clock values)
	s := vsched.Run(vsched.Config{Bound: 0, NoEnv: true, MaxSteps: 3_000_000, StartTime: startTime + 3600e9}, func() {
		problem, matched = recoverAndCheck1(dst, keys, models, lo, hi, cont)
	})
	if s.Out != vsched.OK {
		return "recovery-" + s.Out.String() + "\n" + s.Detail, -1
	}
	return problem, matched
}

func recoverAndCheck1(dst string, keys []string, models []map[string][]byte, lo, hi int, cont bool) (problem string, matched int) {
	e, err := engine.NewEngineFacade(dst)
	if err != nil {
		return "open-failed\nopening the crashed database failed: " + err.Error(), -1
	}
	closed := false
	defer func() {
		if !closed {
			e.Close()
		}
	}()
	view := func(e *engine.EngineFacade) (map[string]string, string) {
		v := map[string]string{}
		for _, k := range keys {
			b, err := e.Get([]byte(k))
			if err == nil {
				v[k] = string(b)
			} else if !isNotFound(err) {
				return nil, "get-error\nGet(" + k + ") after recovery: " + err.Error()
			}
		}
		it, err := e.GetIterator()
		if err != nil {
			return nil, "scan-error\n" + err.Error()
		}
		sv := map[string]string{}
		n := 0
		for it.SeekToFirst(); it.Valid(); it.Next() {
			if n++; n > 10000 {
				return nil, "scan-nonterminating\n"
			}
			if !it.IsTombstone() {
				sv[string(it.Key())] = string(it.Value())
			}
		}
		if fmt.Sprint(sv) != fmt.Sprint(v) {
			return nil, fmt.Sprintf("scan-get-disagree\nafter recovery gets show %v but a scan shows %v", v, sv)
		}
		return v, ""
	}
	got, p := view(e)
	if p != "" {
		return p, -1
	}
	matched = -1
	for j := hi; j >= lo; j-- {
		if sameView(got, models[j]) {
			matched = j
			break
		}
	}
	if matched < 0 {
		// classify
		cls := "not-a-prefix"
		for j := range models {
			if sameView(got, models[j]) {
				if j < lo {
					cls = "acknowledged-write-lost"
				} else {
					cls = "future-state"
				}
			}
		}
		var adm []string
		for j := lo; j <= hi; j++ {
			adm = append(adm, fmt.Sprintf("after %d ops: %v", j, strModel(models[j])))
		}
		return fmt.Sprintf("%s\nrecovered state %v matches no admissible history prefix [%s]", cls, got, strings.Join(adm, " | ")), -1
	}
	if !cont {
		return "", matched
	}
	// continuation: the same guarantees hold for writes made after a recovery
	want := cloneModel(models[matched])
	if err := e.Put([]byte("zc"), []byte("cont-1")); err != nil {
		return "write-after-recovery-failed\n" + err.Error(), matched
	}
	want["zc"] = []byte("cont-1")
	if len(keys) > 0 {
		if err := e.Delete([]byte(keys[0])); err != nil {
			return "write-after-recovery-failed\n" + err.Error(), matched
		}
		delete(want, keys[0])
	}
	if err := e.Close(); err != nil {
		return "close-after-recovery-failed\n" + err.Error(), matched
	}
	closed = true
	e2, err := engine.NewEngineFacade(dst)
	if err != nil {
		return "second-open-failed\n" + err.Error(), matched
	}
	defer e2.Close()
	keys = append(append([]string{}, keys...), "zc")
	got2, p := view(e2)
	if p != "" {
		return "second-" + p, matched
	}
	if !sameView(got2, want) {
		return fmt.Sprintf("continuation-lost\nafter recovery, 2 writes, clean close and reopen the state is %v, expected %v", got2, strModel(want)), matched
	}
	// sequence numbers of the continuation exceed everything retained (C08's rule after recovery)
	var seqs []uint64
	wal.ReplayWALDir(filepath.Join(dst, "wal"), func(en *wal.Entry) error { seqs = append(seqs, en.SequenceNumber); return nil })
	if n := len(seqs); n >= 2 {
		var maxOld uint64
		for _, s := range seqs[:n-2] {
			if s > maxOld {
				maxOld = s
			}
		}
		if n > 2 && (seqs[n-2] <= maxOld || seqs[n-1] <= seqs[n-2]) {
			return fmt.Sprintf("seq-after-recovery\nwrites after recovery are stamped %d,%d; the recovered log holds stamps up to %d", seqs[n-2], seqs[n-1], maxOld), matched
		}
	}
	return "", matched
}

func sameView(got map[string]string, m map[string][]byte) bool {
	if len(got) != len(m) {
		return false
	}
	for k, v := range m {
		g, ok := got[k]
		if !ok || g != string(v) {
			return false
		}
	}
	return true
}

func strModel(m map[string][]byte) string {
	var ks []string
	for k, v := range m {
		ks = append(ks, k+"="+string(v))
	}
	sort.Strings(ks)
	return "{" + strings.Join(ks, " ") + "}"
}

type c02Spec struct {
	Prop     string
	Cfg      EngCfg
	Alphabet []EngOp
	Depth    int
	Keys     []string
	Torn     bool
}

// c02Explore: DFS over programs; for each new program the crash states inside its last operation are enumerated.
func c02Explore(sp *c02Spec, first []EngOp, env *fw.Env, unit string, res *fw.Result) {
	base := fw.Scratch("c02")
	defer os.RemoveAll(base)
	visited := map[[16]byte]int{}
	var rec func(prog []EngOp)
	rec = func(prog []EngOp) {
		if env.Expired() {
			if res.Exhaustive {
				res.Caps = append(res.Caps, fmt.Sprintf("%s: deadline hit at program length %d", unit, len(prog)))
			}
			res.Exhaustive = false
			return
		}
		fw.Progress("c02 " + sp.Cfg.Name + " " + progString(prog))
		r := recordProg(filepath.Join(base, "run"), sp.Cfg, prog)
		res.Transitions++
		res.Traces++
		viol := func(class, detail string, w map[string]any) {
			w["kind"], w["cfg"], w["prog"] = "crash", sp.Cfg.Name, prog
			res.Violate(fw.FP(sp.Prop, sp.Cfg.Name, class, progString(prog)), fmt.Sprintf("[%s] %s: %s", sp.Cfg.Name, progString(prog), detail), unit, w)
		}
		if r.Out != vsched.OK {
			viol(r.Out.String(), r.Out.String()+": "+r.Detail, map[string]any{})
			return
		}
		if len(r.Models) != len(prog)+1 {
			viol("run-failed", "program did not complete: "+strings.Join(r.Errs, "; "), map[string]any{})
			return
		}
		n := len(prog)
		// segment of the last operation
		start := 0
		for i, op := range r.Log {
			if op.Kind == vos.OpMark && op.Path == fmt.Sprintf("issue:%d", n) {
				start = i
			}
		}
		fs := r.Initial.clone()
		for i := 0; i < start; i++ {
			fs.apply(r.Log[i], -1)
		}
		sync := sp.Cfg.Sync == config.SyncImmediate
		// the manifest stores absolute paths, so crash states are materialised at the path the run used
		dst := filepath.Join(base, "run")
		bad := false
		for cut := start; cut <= len(r.Log) && !bad; cut++ {
			// state with log[0:cut] applied; then torn variants of log[cut]
			var cases []crashCase
			if cut == len(r.Log) || r.Log[cut].Kind != vos.OpMark && r.Log[cut].Kind != vos.OpSync {
				cases = append(cases, crashCase{cut, -1})
			}
			if sp.Torn && cut < len(r.Log) && r.Log[cut].Kind == vos.OpWrite {
				for _, t := range tornCuts(r.Log[cut]) {
					cases = append(cases, crashCase{cut, t})
				}
			}
			for _, cc := range cases {
				st := fs
				if cc.Torn >= 0 {
					st = fs.clone()
					st.apply(r.Log[cut], cc.Torn)
				}
				fw.Alive()
				if err := st.dump(dst); err != nil {
					res.HarnessErr = "dump: " + err.Error()
					return
				}
				// admissible history prefixes
				acked := n - 1
				if cut == len(r.Log) {
					acked = n
				}
				lo, hi := acked, n
				if !sync {
					// without synchronous logging only a clean close makes writes durable: everything up to the
					// last completed close + reopen must be there
					lo = 0
					for i, op := range prog[:acked] {
						if op.Kind == "reopen" {
							lo = i + 1
						}
					}
				}
				res.Evaluations++
				if cut > start && cut < len(r.Log) {
					res.Nontrivial++ // the cut falls inside the operation
				}
				problem, _ := recoverAndCheck(dst, sp.Keys, r.Models, lo, hi, true, r.EndTime)
				if problem != "" {
					at := "end"
					if cut < len(r.Log) {
						at = normPath(describeOp(r.Log[cut]))
					}
					prev := "start"
					if cut > 0 {
						prev = normPath(describeOp(r.Log[cut-1]))
					}
					where := fmt.Sprintf("after %s, before %s", prev, at)
					if cc.Torn >= 0 {
						where = fmt.Sprintf("%d of %d bytes of %s", cc.Torn, len(r.Log[cut].Data), at)
					}
					w := map[string]any{"cut": cc.Cut, "torn": cc.Torn, "where": where, "problem": problem}
					if cc.Torn >= 0 && firstLine(problem) == "not-a-prefix" && tornInsideBatch(r.Log[cut], cc.Torn) {
						// one root cause, one fingerprint: the log has no batch framing, so a write torn between the records
						// of one AppendBatch call leaves a strict subset of the transaction in the log
						w["kind"], w["cfg"], w["prog"] = "crash", sp.Cfg.Name, prog
						res.Violate(fw.FP(sp.Prop, "torn-inside-batch-records"), fmt.Sprintf("[%s] %s: crash %s: %s", sp.Cfg.Name, progString(prog), where, problem), unit, w)
						res.Count("known_class_torn_batch_cases", 1)
						break // further torn lengths of this write fall into the same class
					}
					viol(firstLine(problem), fmt.Sprintf("crash %s: %s", where, problem), w)
					bad = true
					break
				}
			}
			if cut < len(r.Log) {
				fs.apply(r.Log[cut], -1)
			}
		}
		if bad {
			return
		}
		if len(res.Samples) < 2 && len(prog) == sp.Depth {
			res.Sample(map[string]any{"cfg": sp.Cfg.Name, "program": progString(prog), "fs_ops_in_last_step": len(r.Log) - start})
		}
		remaining := sp.Depth - len(prog)
		h := sha256.Sum256([]byte(r.Key))
		var k [16]byte
		copy(k[:], h[:16])
		if old, ok := visited[k]; ok && old >= remaining {
			res.Count("merged_by_state_key", 1)
			return
		}
		if _, ok := visited[k]; !ok {
			res.States++
		}
		visited[k] = remaining
		if remaining == 0 {
			return
		}
		for _, a := range sp.Alphabet {
			rec(append(prog[:len(prog):len(prog)], a))
		}
	}
	rec(first)
}

func c02Alphabet() []EngOp {
	return []EngOp{
		{Kind: "put", Key: "a"},
		{Kind: "put", Key: "b"},
		{Kind: "del", Key: "a"},
		{Kind: "txc", Sub: []EngOp{{Kind: "put", Key: "a"}, {Kind: "del", Key: "b"}}},
		{Kind: "flush"}, {Kind: "bg"}, {Kind: "reopen"}, {Kind: "compact"},
	}
}

// c02Shapes: writes that are larger than the log's buffers (a batch above the 64 KiB write buffer, a value above
// one 32 KiB record) issued behind small writes that may still sit in a buffer, then one more step.
func c02Shapes(cfg string, env *fw.Env, unit string, res *fw.Result) {
	bigBatch := EngOp{Kind: "txc", Sub: []EngOp{{Kind: "put", Key: "a", Val: "<big:30000>"}, {Kind: "put", Key: "b", Val: "<big:30000>"}, {Kind: "put", Key: "d", Val: "<big:30000>"}}}
	bigPut := EngOp{Kind: "put", Key: "b", Val: "<big:70000>"}
	// the small writes go to a key the large ones do not overwrite
	small := EngOp{Kind: "put", Key: "c"}
	smallC := EngOp{Kind: "del", Key: "c"}
	follow := []EngOp{{Kind: "put", Key: "b"}, {Kind: "del", Key: "a"}, {Kind: "reopen"}, {Kind: "flush"}}
	for _, first := range [][]EngOp{{small, bigBatch}, {small, smallC, bigBatch}, {small, bigPut}, {bigBatch, bigBatch}} {
		sp := &c02Spec{Prop: "C02", Cfg: engCfgs[cfg], Alphabet: follow, Depth: len(first) + 1, Keys: []string{"a", "b", "c", "d"}, Torn: true}
		c02Explore(sp, first, env, unit, res)
	}
}

// c02RawBatch: the engine's batch call with repeated keys (all entries under one sequence number) followed by up to
// two maintenance / write steps, on the configurations that flush early; crash states inside every step
func c02RawBatch(cfg string, env *fw.Env, unit string, res *fw.Result) {
	batch := EngOp{Kind: "abatch", Sub: []EngOp{{Kind: "put", Key: "a"}, {Kind: "put", Key: "a"}, {Kind: "put", Key: "b"}, {Kind: "del", Key: "b"}, {Kind: "del", Key: "c"}, {Kind: "put", Key: "c"}}}
	follow := []EngOp{{Kind: "put", Key: "d"}, {Kind: "flush"}, {Kind: "bg"}, {Kind: "reopen"}}
	depthExtra := 1
	if env.Thorough {
		depthExtra = 2
	}
	for _, first := range [][]EngOp{{batch}, {{Kind: "put", Key: "c"}, batch}} {
		sp := &c02Spec{Prop: "C02", Cfg: engCfgs[cfg], Alphabet: follow, Depth: len(first) + depthExtra, Keys: []string{"a", "b", "c", "d"}, Torn: true}
		c02Explore(sp, first, env, unit, res)
	}
}

// recordCont continues on the files already in dir (a crash state): open (recovery), prog, everything recorded.
func recordCont(dir string, c EngCfg, model map[string][]byte, prog []EngOp, startTime int64) *crashRec {
	rec := &crashRec{Initial: newMemFS()}
	rec.Initial.loadDir(dir)
	vos.StartRecording(dir)
	s := vsched.Run(vsched.Config{Bound: 0, NoEnv: true, MaxSteps: 3_000_000, StartTime: startTime}, func() {
		e, err := engine.NewEngineFacade(dir)
		if err != nil {
			rec.Errs = append(rec.Errs, "open: "+err.Error())
			return
		}
		r := &EngRun{Dir: dir, Cfg: c, Eng: e, Model: cloneModel(model)}
		rec.Models = append(rec.Models, cloneModel(r.Model))
		for k, o := range prog {
			vos.Mark(fmt.Sprintf("issue:%d", k+1))
			err := r.Apply(o)
			if errors.Is(err, errReopen) {
				rec.Errs = append(rec.Errs, err.Error())
				return
			}
			vos.Mark(fmt.Sprintf("ack:%d", k+1))
			rec.Models = append(rec.Models, cloneModel(r.Model))
		}
		rec.Errs = append(rec.Errs, r.Errs...)
		rec.Log = vos.StopRecording()
		r.Close()
	})
	if rec.Log == nil {
		rec.Log = vos.StopRecording()
	}
	rec.Out, rec.Detail = s.Out, s.Detail
	rec.EndTime = s.Now
	return rec
}

func crashCases(log []vos.Op, cut int) []crashCase {
	var cases []crashCase
	if cut == len(log) || log[cut].Kind != vos.OpMark && log[cut].Kind != vos.OpSync {
		cases = append(cases, crashCase{cut, -1})
	}
	if cut < len(log) && log[cut].Kind == vos.OpWrite {
		for _, t := range tornCuts(log[cut]) {
			cases = append(cases, crashCase{cut, t})
		}
	}
	return cases
}

// c02DoubleCrash: repeated crash/recover cycles. The process dies inside the last write of a short program (every
// cut and torn length), restarts, and dies again inside the recovery or inside the first write after it (every cut
// and torn length again); the state after the second recovery must still be a prefix that keeps what the first
// recovery showed.
func c02DoubleCrash(cfg string, env *fw.Env, unit string, res *fw.Result) {
	base := fw.Scratch("c02d")
	defer os.RemoveAll(base)
	c := engCfgs[cfg]
	keys := []string{"a", "b", "c"}
	sync := c.Sync == config.SyncImmediate
	progs := [][]EngOp{
		{{Kind: "put", Key: "a"}, {Kind: "put", Key: "b"}},
		{{Kind: "put", Key: "a"}, {Kind: "txc", Sub: []EngOp{{Kind: "put", Key: "b"}, {Kind: "del", Key: "a"}}}},
	}
	next := []EngOp{{Kind: "put", Key: "c"}}
	dst := filepath.Join(base, "run")
	for _, prog := range progs {
		r := recordProg(dst, c, prog)
		res.Transitions++
		res.Traces++
		viol := func(class, detail string, w map[string]any) {
			w["kind"], w["cfg"], w["prog"] = "double-crash", cfg, prog
			res.Violate(fw.FP("C02", cfg, "double-crash", class, progString(prog)), fmt.Sprintf("[%s] %s: %s", cfg, progString(prog), detail), unit, w)
		}
		if r.Out != vsched.OK || len(r.Models) != len(prog)+1 {
			viol("run-failed", "program did not complete: "+r.Detail+strings.Join(r.Errs, "; "), map[string]any{})
			continue
		}
		n := len(prog)
		start := 0
		for i, op := range r.Log {
			if op.Kind == vos.OpMark && op.Path == fmt.Sprintf("issue:%d", n) {
				start = i
			}
		}
		fs := r.Initial.clone()
		for i := 0; i < start; i++ {
			fs.apply(r.Log[i], -1)
		}
		bad := false
		for cut := start; cut <= len(r.Log) && !bad; cut++ {
			for _, cc := range crashCases(r.Log, cut) {
				if bad || env.Expired() {
					break
				}
				st := fs
				if cc.Torn >= 0 {
					st = fs.clone()
					st.apply(r.Log[cut], cc.Torn)
				}
				fw.Progress(fmt.Sprintf("c02 double-crash %s %s first crash %d/%d", cfg, progString(prog), cc.Cut, cc.Torn))
				if err := st.dump(dst); err != nil {
					res.HarnessErr = "dump: " + err.Error()
					return
				}
				lo, hi := n-1, n
				if cut == len(r.Log) {
					lo = n
				}
				if !sync {
					lo = 0
				}
				problem, j := recoverAndCheck(dst, keys, r.Models, lo, hi, false, r.EndTime)
				res.Evaluations++
				if problem != "" {
					break // the single-crash enumeration reports this
				}
				if err := st.dump(dst); err != nil {
					res.HarnessErr = "dump: " + err.Error()
					return
				}
				r2 := recordCont(dst, c, r.Models[j], next, r.EndTime+3600e9)
				res.Transitions++
				where1 := fmt.Sprintf("first crash at log operation %d", cc.Cut)
				if cc.Torn >= 0 {
					where1 = fmt.Sprintf("first crash %d of %d bytes into %s", cc.Torn, len(r.Log[cut].Data), normPath(describeOp(r.Log[cut])))
				}
				if r2.Out != vsched.OK || len(r2.Models) != 2 {
					viol("restart-failed", where1+": restart and one write did not complete: "+r2.Detail+strings.Join(r2.Errs, "; "), map[string]any{"first": cc})
					bad = true
					break
				}
				issue := 0
				for i, op := range r2.Log {
					if op.Kind == vos.OpMark && op.Path == "issue:1" {
						issue = i
					}
				}
				fs2 := r2.Initial.clone()
				for cut2 := 0; cut2 <= len(r2.Log) && !bad; cut2++ {
					for _, c2 := range crashCases(r2.Log, cut2) {
						st2 := fs2
						if c2.Torn >= 0 {
							st2 = fs2.clone()
							st2.apply(r2.Log[cut2], c2.Torn)
						}
						fw.Alive()
						if err := st2.dump(dst); err != nil {
							res.HarnessErr = "dump: " + err.Error()
							return
						}
						lo2, hi2 := 0, 1
						if cut2 <= issue {
							hi2 = 0
						}
						if cut2 == len(r2.Log) && sync {
							lo2 = 1
						}
						res.Evaluations++
						res.Nontrivial++
						p2, _ := recoverAndCheck(dst, keys, r2.Models, lo2, hi2, true, r2.EndTime)
						if p2 != "" {
							where2 := fmt.Sprintf("second crash at log operation %d of the restarted process", c2.Cut)
							if cut2 < len(r2.Log) {
								where2 = fmt.Sprintf("second crash before %s", normPath(describeOp(r2.Log[cut2])))
								if c2.Torn >= 0 {
									where2 = fmt.Sprintf("second crash %d of %d bytes into %s", c2.Torn, len(r2.Log[cut2].Data), normPath(describeOp(r2.Log[cut2])))
								}
							}
							viol(firstLine(p2), where1+"; restart showed "+strModel(r.Models[j])+"; "+where2+": "+p2, map[string]any{"first": cc, "second": c2})
							bad = true
							break
						}
					}
					if cut2 < len(r2.Log) {
						fs2.apply(r2.Log[cut2], -1)
					}
				}
			}
			if cut < len(r.Log) {
				fs.apply(r.Log[cut], -1)
			}
		}
		if env.Expired() {
			res.Exhaustive = false
			res.Caps = append(res.Caps, unit+": deadline")
			return
		}
	}
}

func c02Unit(unit string, env *fw.Env) *fw.Result {
	res := fw.NewResult()
	parts := strings.Split(unit, "/")
	if parts[0] == "double" {
		c02DoubleCrash(parts[1], env, unit, res)
		return res
	}
	if parts[0] == "rawbatch" {
		c02RawBatch(parts[1], env, unit, res)
		return res
	}
	if parts[0] == "shapes" {
		c02Shapes(parts[1], env, unit, res)
		return res
	}
	var depth, first int
	fmt.Sscanf(parts[2], "%d", &depth)
	fmt.Sscanf(parts[3], "%d", &first)
	alpha := c02Alphabet()
	sp := &c02Spec{Prop: "C02", Cfg: engCfgs[parts[1]], Alphabet: alpha, Depth: depth, Keys: []string{"a", "b"}, Torn: true}
	c02Explore(sp, []EngOp{alpha[first]}, env, unit, res)
	return res
}

func init() {
	fw.Register(&fw.Check{
		ID:    "C02",
		Level: "fault_enumeration",
		Rule: "explicit-state search over engine programs {put a, put b, del a, 2-key commit, flush, bg, reopen, compact} up to the depth per configuration (sync immediate/none/batch, memtable 32 MiB / 1 B incl. max-memtables 2); every file-system call of the run is recorded; for each program every crash state inside its last operation is materialised (all prefixes of the call log, plus torn variants of every write: all lengths for writes <=512 B, else record boundaries +-8, page multiples, first/last 64) and opened with the real engine. Oracle: the recovered state (gets and scan) equals the model after j operations for an admissible j (acked <= j <= issued with synchronous logging, last completed clean close <= j <= issued otherwise, a transaction counts as one operation); then 2 writes, clean close, reopen: state and sequence stamps continue correctly. Raw-batch sub-run: a batch with repeated keys (put/put, put/delete, delete/put under one sequence number) through the engine's batch call, followed by <=1 (2 thorough) steps of {put, flush, bg, reopen}, memtable 1 B / 40 B. Shape sub-run (sync immediate / none / batch): a 90 KB three-entry commit or a 70 KB put issued behind one or two small writes (or behind another such commit), followed by one of {put, delete, reopen, flush}, same crash enumeration inside the large write and inside the step after it. Double-crash sub-run (sync immediate / none, memtable 32 MiB / 1 B): after {put a, put b} or {put a, commit(put b, del a)} the process dies at every cut / torn length of the last operation, restarts on that state, and dies again at every cut / torn length of the recovery and of the first write after it; the second recovery must show the state the first one showed, with or without the new write, and continue correctly. Non-trivial = crash cuts strictly inside an operation",
		Assumptions: []string{"process-death crash model: completed writes survive, fsync is irrelevant, power loss is not modelled", "single client; background flush runs at explicit bg steps"},
		Units: func(tier string) []string {
			var us []string
			depth := map[string]int{"big": 4, "tiny": 3, "bigN": 3, "tiny2": 3}
			if tier == "thorough" {
				depth = map[string]int{"big": 5, "tiny": 4, "bigN": 4, "tiny2": 4, "bigB": 4, "two": 4}
			}
			for _, cfg := range sortedKeys(depth) {
				for i := 0; i < 4; i++ {
					us = append(us, fmt.Sprintf("prog/%s/%d/%d", cfg, depth[cfg], i))
				}
			}
			for _, cfg := range []string{"big", "bigN", "bigB"} {
				us = append(us, "shapes/"+cfg)
			}
			for _, cfg := range []string{"tiny", "two"} {
				us = append(us, "rawbatch/"+cfg)
			}
			for _, cfg := range []string{"big", "bigN", "tiny"} {
				us = append(us, "double/"+cfg)
			}
			return us
		},
		Run:    c02Unit,
		Replay: func(v *fw.Violation) string { b, _ := json.Marshal(v.Witness); return "re-run: kvcheck one C02 quick " + v.Unit + "\nwitness: " + string(b) },
		BudgetQuick: 110, BudgetThorough: 900,
	})
	_ = bytes.Equal
}

// tornInsideBatchRecords reports whether a write to a log file, torn after t bytes, is cut between the
// records of one batch (consecutive records stamped alike): at least one record of the batch is complete
// and at least one is not.
func tornInsideBatch(op vos.Op, t int) bool {
	if op.Kind != vos.OpWrite || !strings.HasSuffix(op.Path, ".wal") {
		return false
	}
	type rec struct {
		off, end int
		seq      uint64
	}
	var recs []rec
	d := op.Data
	off := 0
	for off+7 <= len(d) {
		l := int(d[off+4]) | int(d[off+5])<<8
		end := off + 7 + l
		if end > len(d) || l < 9 || d[off+6] != 1 {
			return false // not a sequence of whole full records: not the known shape
		}
		var seq uint64
		for i := 0; i < 8; i++ {
			seq |= uint64(d[off+7+1+i]) << (8 * i)
		}
		recs = append(recs, rec{off, end, seq})
		off = end
	}
	if off != len(d) {
		return false
	}
	for i := 0; i < len(recs); {
		j := i
		for j+1 < len(recs) && recs[j+1].seq == recs[i].seq {
			j++
		}
		if j > i && t >= recs[i].end && t < recs[j].end {
			return true
		}
		i = j + 1
	}
	return false
}
