package harness

import (
	"encoding/json"
	"fmt"
	"strings"

	"verif/mc/fw"
)

// C01 — reads return the latest write through every storage layer.

var c01Keys = []string{"a", "b", "\x00\xff"}

func c01Alphabet() []EngOp {
	var a []EngOp
	for _, k := range c01Keys[:2] {
		a = append(a, EngOp{Kind: "put", Key: k})
	}
	a = append(a, EngOp{Kind: "del", Key: "a"}, EngOp{Kind: "del", Key: "b"})
	a = append(a,
		EngOp{Kind: "flush"}, EngOp{Kind: "bg"}, EngOp{Kind: "reopen"}, EngOp{Kind: "compact"},
		EngOp{Kind: "txc", Sub: []EngOp{{Kind: "put", Key: "a"}, {Kind: "put", Key: "b"}, {Kind: "put", Key: "\x00\xff"}}},
		EngOp{Kind: "txc", Sub: []EngOp{{Kind: "del", Key: "a"}, {Kind: "put", Key: "b"}}},
		EngOp{Kind: "txr", Sub: []EngOp{{Kind: "put", Key: "a"}, {Kind: "del", Key: "b"}}},
		EngOp{Kind: "put", Key: "\x00\xff"},
		EngOp{Kind: "crange", Lo: "a", Hi: "b"},
		// raw batch with repeated keys: put/put, put/delete, delete/put inside one batch (one sequence number)
		EngOp{Kind: "abatch", Sub: []EngOp{{Kind: "put", Key: "a"}, {Kind: "put", Key: "a"}, {Kind: "put", Key: "b"}, {Kind: "del", Key: "b"}}},
		EngOp{Kind: "abatch", Sub: []EngOp{{Kind: "del", Key: "a"}, {Kind: "put", Key: "a"}}},
	)
	return a
}

func c01Oracle(r *EngRun, prog []EngOp) string {
	if p := r.CheckGets(append(c01Keys, "never")); p != "" {
		return p
	}
	return ""
}

func c01Spec(cfg string, depth int) *seqxSpec {
	return &seqxSpec{Prop: "C01", Cfg: engCfgs[cfg], Alphabet: c01Alphabet(), Depth: depth, Keys: c01Keys, Oracle: c01Oracle,
		Skip: func(p []EngOp) bool {
			// programs that start with maintenance on an empty database are covered as suffixes of others
			k := p[0].Kind
			return k == "flush" || k == "bg" || k == "compact" || k == "crange" || k == "reopen" || k == "txr"
		}}
}

func c01Unit(unit string, env *fw.Env) *fw.Result {
	res := fw.NewResult()
	parts := strings.Split(unit, "/")
	switch parts[0] {
	case "prog":
		var depth, first int
		fmt.Sscanf(parts[2], "%d", &depth)
		fmt.Sscanf(parts[3], "%d", &first)
		sp := c01Spec(parts[1], depth)
		seqxRun(sp, []EngOp{sp.Alphabet[first]}, env, unit, res)
	case "shapes":
		c01Shapes(parts[1], env, unit, res)
	case "many":
		c01Many(parts[1], []EngOp{{Kind: "flush"}, {Kind: "bg"}, {Kind: "reopen"}, {Kind: "compact"}}, env, unit, res)
	}
	return res
}

// value-shape sub-run: boundary-size keys and values through every layer
func c01Shapes(cfg string, env *fw.Env, unit string, res *fw.Result) {
	big := func(n int) string { return strings.Repeat("z", n) }
	shapes := []EngOp{
		{Kind: "put", Key: "e", Val: "<empty>"},
		{Kind: "put", Key: "n", Val: "<nil>"},
		{Kind: "put", Key: "one", Val: "x"},
		{Kind: "put", Key: "rec", Val: big(32*1024 - 13 - 3 - 4)},
		{Kind: "put", Key: "frag", Val: big(32*1024 + 1)},
		{Kind: "put", Key: "blk", Val: big(70 * 1024)},
		{Kind: "put", Key: big(4096), Val: "longkey"},
	}
	maint := []EngOp{{Kind: "flush"}, {Kind: "bg"}, {Kind: "reopen"}, {Kind: "compact"}}
	keys := []string{"t1", "t2", "t3", "s"}
	for _, s := range shapes {
		keys = append(keys, s.Key)
	}
	sp := &seqxSpec{Prop: "C01", Cfg: engCfgs[cfg], Depth: 4, Oracle: func(r *EngRun, prog []EngOp) string { return r.CheckGets(keys) }, NoDedup: true}
	// all programs: shape, then up to 3 maintenance steps / another shape
	for _, s := range shapes {
		sp.Alphabet = append(append([]EngOp{}, maint...), EngOp{Kind: "put", Key: "one", Val: "y"}, EngOp{Kind: "del", Key: s.Key})
		seqxRun(sp, []EngOp{s}, env, unit, res)
	}
	c01Many(cfg, maint, env, unit, res)
	// a commit larger than the log's 64 KiB write buffer behind a small write, then the same continuations
	bigBatch := EngOp{Kind: "txc", Sub: []EngOp{{Kind: "put", Key: "t1", Val: "<big:30000>"}, {Kind: "put", Key: "t2", Val: "<big:30000>"}, {Kind: "put", Key: "t3", Val: "<big:30000>"}}}
	sp.Depth = 5
	sp.Alphabet = append(append([]EngOp{}, maint...), EngOp{Kind: "put", Key: "one", Val: "y"}, EngOp{Kind: "del", Key: "t2"})
	seqxRun(sp, []EngOp{{Kind: "put", Key: "s", Val: "small"}, bigBatch}, env, unit, res)
}

// many keys in one table: numbered and nested keys (different shared-prefix lengths between neighbours, several
// restart intervals of the table's prefix compression), then maintenance / a second batch over some of them.
// Configuration mid (memtable 600 B) makes a restart rebuild several tables of 20-30 entries from the log, which
// then serve the reads (a table flushed in the same session is shadowed by its memtable, which stays in the pool).
func c01Many(cfg string, maint []EngOp, env *fw.Env, unit string, res *fw.Result) {
	var many, again []EngOp
	mkeys := []string{"a", "ab", "abc", "abd", "b"}
	for i := 0; i < 40; i++ {
		mkeys = append(mkeys, fmt.Sprintf("user:%03d", i))
	}
	for i, k := range mkeys {
		many = append(many, EngOp{Kind: "put", Key: k})
		if i%3 == 1 {
			again = append(again, EngOp{Kind: "put", Key: k})
		} else if i%7 == 2 {
			again = append(again, EngOp{Kind: "del", Key: k})
		}
	}
	spm := &seqxSpec{Prop: "C01", Cfg: engCfgs[cfg], Depth: 4, Oracle: func(r *EngRun, prog []EngOp) string { return r.CheckGets(mkeys) }, NoDedup: true}
	spm.Alphabet = append(append([]EngOp{}, maint...), EngOp{Kind: "abatch", Sub: again})
	seqxRun(spm, []EngOp{{Kind: "abatch", Sub: many}}, env, unit, res)
}

func init() {
	fw.Register(&fw.Check{
		ID:    "C01",
		Level: "model_checking",
		Rule: "explicit-state search over engine programs: alphabet {put a/b/\\x00\\xff (fresh value id per write), del a/b, 3-key commit, delete+put commit, rollback, two raw batches with repeated keys (put/put, put/delete, delete/put under one sequence number), flush, bg (background flush to quiescence), reopen, compact, compact-range} on the real EngineFacade under the deterministic scheduler, all programs up to the depth per configuration (memtable size 32MiB / 1 B / 40 B, max memtables 4/2, sync immediate/none), states de-duplicated by the canonical implementation state (every layer's entries with sequence numbers, log counters, files); after each program every key is read and compared with a map model. " +
			"Value-shape sub-run: empty, nil, 1 B, one-record, fragmented, >1 block values and a 4 KiB key followed by all maintenance sequences of length <=3, a 45-key batch of numbered and nested keys (several restart intervals of one table) followed by maintenance / a second batch over a third of them - also with a 600-byte memtable, where a restart rebuilds tables of 20-30 entries from the log and reads are served by them -, and a 90 KB three-entry commit behind a small put followed by the same continuations (memtable 32 MiB / 1 B, sync immediate / none / batch). Non-trivial = programs with >=2 steps",
		Assumptions: []string{"single client; background threads run only at explicit bg steps or when the client waits for them (a legal schedule; other schedules are C06's subject)", "state key omits wall-clock derived names; virtual time makes them functions of the program"},
		Units: func(tier string) []string {
			var us []string
			depth := map[string]int{"big": 5, "tiny": 4, "two": 4, "tiny2": 4}
			if tier == "thorough" {
				depth = map[string]int{"big": 6, "tiny": 5, "two": 5, "tiny2": 5, "bigN": 5}
			}
			for _, cfg := range sortedKeys(depth) {
				for i := range c01Alphabet() {
					us = append(us, fmt.Sprintf("prog/%s/%d/%d", cfg, depth[cfg], i))
				}
			}
			for _, cfg := range []string{"big", "tiny", "bigN", "bigB"} {
				us = append(us, "shapes/"+cfg)
			}
			us = append(us, "many/mid")
			return us
		},
		Run:    c01Unit,
		Replay: func(v *fw.Violation) string { b, _ := json.Marshal(v.Witness); return "re-run: kvcheck one C01 quick " + v.Unit + "\nwitness: " + string(b) },
		BudgetQuick: 110, BudgetThorough: 900,
	})
}
