package harness

import (
	"github.com/KevoDB/kevo/pkg/replication"
	"encoding/json"
	"fmt"
	"path/filepath"
	"strings"

	"github.com/KevoDB/kevo/pkg/engine/storage"
	"github.com/KevoDB/kevo/pkg/wal"
	"github.com/KevoDB/kevo/pkg/zzverif/vsched"
	"verif/mc/explore"
	"verif/mc/fw"
)

// C06 — concurrent gets, puts and deletes are linearizable.

type c06Client []string // ops: "put:a:1", "get:a", "del:a", "flush", "compact"

type c06Scenario struct {
	Name    string
	Cfg     string
	Pre     []string // sequential prefix ops (run by the main thread before the clients start); "bg" = let background run
	Clients []c06Client
	Env     map[string]int
	Primary bool // a replication primary is attached to the log; the last sequence it reports is sampled after every client write
}

type c06Obs struct {
	Hist    []kvOp
	Initial map[string]string
	Final   map[string]string
	Reported []uint64      // samples of the last sequence the attached replication primary reports, in time order
	WalCnt  map[string]int // "key=val" -> number of log entries
	WalSeq  map[string][]uint64 // "key=val" -> stamps of its log entries
	Pre     []kvOp              // the sequential prefix (before every client operation)
	Err     string
}

func c06Run(sc c06Scenario) any {
	dir := filepath.Join(fw.ProcDir("c06"), "db")
	obs := &c06Obs{Initial: map[string]string{}, Final: map[string]string{}, WalCnt: map[string]int{}, WalSeq: map[string][]uint64{}}
	r, err := newEngRun(dir, engCfgs[sc.Cfg])
	if err != nil {
		obs.Err = "open: " + err.Error()
		return obs
	}
	rec := &recorder{}
	var prim *replication.Primary
	if sc.Primary {
		if prim, err = replication.NewPrimary(r.Eng.GetWAL(), nil); err != nil {
			obs.Err = "primary: " + err.Error()
			return obs
		}
	}
	sample := func() {
		if prim != nil {
			obs.Reported = append(obs.Reported, prim.GetLastSequence())
		}
	}
	exec := func(client int, op string) {
		p := strings.Split(op, ":")
		switch p[0] {
		case "put":
			rec.do(client, "put", p[1], p[2], func(o *kvOp) {
				if err := r.Eng.Put([]byte(p[1]), []byte(p[2])); err != nil {
					o.Err = err.Error()
				}
			})
			sample()
		case "del":
			rec.do(client, "del", p[1], "", func(o *kvOp) {
				if err := r.Eng.Delete([]byte(p[1])); err != nil {
					o.Err = err.Error()
				}
			})
		case "get":
			rec.do(client, "get", p[1], "", func(o *kvOp) {
				v, err := r.Eng.Get([]byte(p[1]))
				if err == nil {
					o.Found, o.Out = true, string(v)
				} else if !isNotFound(err) {
					o.Err = err.Error()
				}
			})
		case "flush":
			if err := r.Eng.FlushImMemTables(); err != nil {
				obs.Err = "flush: " + err.Error()
			}
		case "compact":
			r.Eng.TriggerCompaction()
		case "bg":
			vsched.Quiesce()
		case "switch":
			r.Eng.VerifStorage().(*storage.Manager).VerifSwitch()
		}
	}
	for _, op := range sc.Pre {
		exec(0, op)
	}
	// the prefix defines the initial state of the concurrent part
	for _, o := range rec.Ops {
		if o.Err == "" {
			if o.Kind == "put" {
				obs.Initial[o.Key] = o.Val
			} else if o.Kind == "del" {
				delete(obs.Initial, o.Key)
			}
		}
	}
	obs.Pre = rec.Ops
	rec.Ops = nil
	var ts []*vsched.Thread
	for ci, c := range sc.Clients {
		ci, c := ci, c
		ts = append(ts, vsched.GoNamed(fmt.Sprintf("C%d", ci+1), func() {
			for _, op := range c {
				exec(ci+1, op)
			}
		}))
	}
	for _, t := range ts {
		vsched.Join(t)
	}
	// let the background work the operations started run to completion, then read
	vsched.Quiesce()
	sample()
	// final reads are part of the history (they come after everything)
	for _, k := range []string{"a", "b"} {
		exec(0, "get:"+k)
	}
	if prim != nil {
		prim.Close()
	}
	obs.Hist = rec.Ops
	// every acknowledged write is in the log exactly once, failed ones not at all
	sm := r.Eng.VerifStorage().(*storage.Manager)
	wdir := sm.VerifWALDir()
	r.Close()
	wal.ReplayWALDir(wdir, func(e *wal.Entry) error {
		k := string(e.Key) + "=<del>"
		if e.Type == wal.OpTypePut {
			k = string(e.Key) + "=" + string(e.Value)
		}
		obs.WalCnt[k]++
		obs.WalSeq[k] = append(obs.WalSeq[k], e.SequenceNumber)
		return nil
	})
	return obs
}

func c06Check(sc c06Scenario) func(s *vsched.Sched, o any) (string, string) {
	return func(s *vsched.Sched, o any) (string, string) {
		ob := o.(*c06Obs)
		var outs []string
		for _, h := range ob.Hist {
			if h.Kind == "get" {
				outs = append(outs, fmt.Sprintf("c%d.get(%s)=%v/%s", h.Client, h.Key, h.Found, h.Out))
			} else if h.Err != "" {
				outs = append(outs, fmt.Sprintf("c%d.%s(%s)=ERR", h.Client, h.Kind, h.Key))
			}
		}
		key := strings.Join(outs, " ")
		if ob.Err != "" {
			return key, "operation-failed\n" + ob.Err
		}
		for _, h := range ob.Hist {
			if h.Kind == "get" && h.Err != "" {
				return key, "get-failed\n" + h.String()
			}
		}
		if !linearizable(ob.Hist, ob.Initial) {
			return key, "not-linearizable\nhistory: " + histString(ob.Hist) + fmt.Sprintf(" initial=%v", ob.Initial)
		}
		// exactly once / not at all
		for _, h := range ob.Hist {
			if h.Kind != "put" {
				continue
			}
			n := ob.WalCnt[h.Key+"="+h.Val]
			if h.Err == "" && n != 1 {
				return key, fmt.Sprintf("acknowledged-write-not-exactly-once\n%s appears %d times in the log", h.String(), n)
			}
			if h.Err != "" && n != 0 {
				return key, fmt.Sprintf("failed-write-took-effect\n%s reported an error but appears %d times in the log", h.String(), n)
			}
		}
		return key, ""
	}
}

func c06Defs() []c06Scenario {
	return []c06Scenario{
		{Name: "put-vs-get", Cfg: "big", Pre: []string{"put:a:0"}, Clients: []c06Client{{"put:a:1"}, {"get:a", "get:a"}}},
		{Name: "put-vs-put", Cfg: "big", Pre: []string{"put:a:0"}, Clients: []c06Client{{"put:a:1", "get:a"}, {"put:a:2", "get:a"}}},
		{Name: "cross-keys", Cfg: "big", Clients: []c06Client{{"put:a:1", "get:b"}, {"put:b:2", "get:a"}}},
		{Name: "del-put-get", Cfg: "big", Pre: []string{"put:a:0"}, Clients: []c06Client{{"del:a"}, {"put:a:1"}, {"get:a"}}},
		// rotation-heavy: every write switches the memtable, signals the background flush, which rotates the log
		{Name: "tiny-put-vs-get", Cfg: "tiny", Pre: []string{"put:a:0"}, Clients: []c06Client{{"put:a:1"}, {"get:a"}}},
		{Name: "tiny-put-vs-put", Cfg: "tiny", Pre: []string{"put:a:0", "bg"}, Clients: []c06Client{{"put:a:1"}, {"put:b:2", "get:a"}}},
		{Name: "tiny-del-vs-get", Cfg: "tiny", Pre: []string{"put:a:0", "bg"}, Clients: []c06Client{{"del:a"}, {"get:a"}}},
		// a burst: the table fills again and again while one background flush is still under way
		{Name: "tiny-burst", Cfg: "tiny", Clients: []c06Client{{"put:a:1", "put:b:2", "put:b:3", "put:b:4", "get:a"}}}, // the read goes to the oldest table of the burst
		{Name: "flush-vs-put-get", Cfg: "big", Pre: []string{"put:a:0", "switch"}, Clients: []c06Client{{"flush"}, {"put:a:1"}, {"get:a"}}},
		{Name: "flush-active-vs-put", Cfg: "big", Pre: []string{"put:a:0"}, Clients: []c06Client{{"flush"}, {"put:a:1", "get:a"}}},
		// the same with a replication primary attached to the log (C08: the last sequence it reports never decreases)
		{Name: "flush-active-vs-put-primary", Cfg: "big", Pre: []string{"put:a:0"}, Clients: []c06Client{{"flush"}, {"put:a:1"}}, Primary: true},
		// two writes can fall into any window of a rotation, a third comes after it
		{Name: "rotate-vs-puts", Cfg: "big", Pre: []string{"put:a:0"}, Clients: []c06Client{{"flush"}, {"put:a:1", "put:a:2"}, {"put:a:3", "get:a"}}},
		{Name: "compact-vs-put-get", Cfg: "tiny2", Pre: []string{"put:a:0", "bg", "put:b:0", "bg"}, Clients: []c06Client{{"compact"}, {"put:a:1", "get:b"}}},
	}
}

// c08ConcCheck is the C08 oracle on the same executions: the stamp of every acknowledged write is strictly greater
// than the stamp of every write acknowledged before it started.
func c08ConcCheck(sc c06Scenario) func(s *vsched.Sched, o any) (string, string) {
	return func(s *vsched.Sched, o any) (string, string) {
		ob := o.(*c06Obs)
		type w struct {
			op  kvOp
			seq uint64
		}
		var ws []w
		var outs []string
		for _, h := range append(append([]kvOp{}, ob.Pre...), ob.Hist...) {
			if (h.Kind != "put" && h.Kind != "del") || h.Err != "" {
				continue
			}
			k := h.Key + "=<del>"
			if h.Kind == "put" {
				k = h.Key + "=" + h.Val
			}
			sq := ob.WalSeq[k]
			if len(sq) != 1 {
				continue // exactly-once is C06's clause
			}
			ws = append(ws, w{h, sq[0]})
			outs = append(outs, fmt.Sprintf("%s@%d", k, sq[0]))
		}
		key := strings.Join(outs, " ")
		if ob.Err != "" {
			return key, ""
		}
		for i := 1; i < len(ob.Reported); i++ {
			if ob.Reported[i] < ob.Reported[i-1] {
				return key, fmt.Sprintf("reported-last-sequence-decreased\nthe replication primary reported last sequence %d and later %d (samples after each client write and at the end: %v)", ob.Reported[i-1], ob.Reported[i], ob.Reported)
			}
		}
		for _, x := range ws {
			for _, y := range ws {
				if x.op.Ret < y.op.Call && x.seq >= y.seq {
					return key, fmt.Sprintf("stamp-not-above-earlier-acknowledged-write\n%s is stamped %d, but %s, acknowledged before it started, is stamped %d", y.op.String(), y.seq, x.op.String(), x.seq)
				}
			}
		}
		return key, ""
	}
}

func c08ConcScenarios() []*explore.Scenario {
	var out []*explore.Scenario
	for _, d := range c06Defs() {
		d := d
		switch d.Name {
		case "put-vs-put", "tiny-put-vs-put", "flush-active-vs-put", "rotate-vs-puts", "flush-active-vs-put-primary":
			out = append(out, &explore.Scenario{Name: d.Name, MaxSteps: 3_000_000, EnvBudgets: d.Env,
				Body:  func() any { return c06Run(d) },
				Check: c08ConcCheck(d)})
		}
	}
	return out
}

func c06Scenarios() []*explore.Scenario {
	var out []*explore.Scenario
	for _, d := range c06Defs() {
		d := d
		if d.Primary {
			continue // C08's scenario
		}
		out = append(out, &explore.Scenario{Name: d.Name, MaxSteps: 3_000_000, EnvBudgets: d.Env,
			Body:  func() any { return c06Run(d) },
			Check: c06Check(d)})
	}
	return out
}

func init() {
	fw.Register(&fw.Check{
		ID:    "C06",
		Level: "model_checking",
		Rule: "stateless exploration of the real engine under the controlled scheduler: 12 scenarios of 1-3 client threads x 1-2 operations {put,get,delete} on colliding keys {a,b}, with the real background flush thread, explicit flush and compaction callers, memtable size 1 B (every write switches the table and rotates the log) or 32 MiB; all interleavings up to the deviation bound (2 quick / 3 thorough) with happens-before caching. Oracle: porcupine linearizability of the recorded call/return history (whole-store model, failed writes as no-ops, final reads included), every acknowledged put in the log exactly once and no failed put in the log. Non-trivial = executions with a cross-thread conflict on a shared object",
		Assumptions: []string{"SC interleavings of visible operations (locks, atomics, channels, file-system namespace calls)", "data calls on open files are not scheduling points (files are thread-private or mutex-guarded)"},
		Units: func(tier string) []string {
			var us []string
			b := 2
			if tier == "thorough" {
				b = 3
			}
			for _, d := range c06Defs() {
				if d.Primary {
					continue
				}
				n := 4
				if strings.HasPrefix(d.Name, "tiny") || strings.Contains(d.Name, "flush") || strings.Contains(d.Name, "compact") {
					n = 8
				}
				bb := b
				if d.Name == "flush-vs-put-get" || d.Name == "rotate-vs-puts" {
					bb = b - 1 // three threads around a flush: one deviation less to stay exhaustive within the budget
					n = 16
				}
				us = append(us, shardUnits(d.Name, bb, n)...)
			}
			us = append(us, raceUnits(c06Scenarios(), nil)...)
			return us
		},
		ExeFor: raceExe,
		Run: func(unit string, env *fw.Env) *fw.Result {
			if strings.HasPrefix(unit, "race/") {
				return raceRun("C06", c06Scenarios(), unit, env)
			}
			sp := parseSched(unit)
			for _, sc := range c06Scenarios() {
				if sc.Name == sp.Name {
					return runSched("C06", sc, sp, env, 2)
				}
			}
			r := fw.NewResult()
			r.HarnessErr = "unknown unit " + unit
			return r
		},
		Replay: func(v *fw.Violation) string {
			w := v.Witness.(map[string]any)
			if w["kind"] == "schedule" {
				return replaySched(func(n string) *explore.Scenario {
					for _, sc := range c06Scenarios() {
						if sc.Name == n {
							return sc
						}
					}
					return nil
				}, v)
			}
			b, _ := json.Marshal(v.Witness)
			return string(b)
		},
		BudgetQuick: 110, BudgetThorough: 900,
	})
}
