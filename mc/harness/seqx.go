package harness

import (
	"crypto/sha256"
	"fmt"
	"path/filepath"

	"github.com/KevoDB/kevo/pkg/zzverif/vsched"
	"verif/mc/fw"
)

// seqx: bounded-exhaustive exploration of engine programs (iterative-deepening
// DFS, successor = replay of the program on a fresh instance plus one operation)
// with de-duplication by the canonical implementation state.

type seqxSpec struct {
	Prop     string
	Cfg      EngCfg
	Alphabet []EngOp
	Depth    int
	Keys     []string
	// Oracle inspects the run after the last step; first line of a problem is its class.
	Oracle func(r *EngRun, prog []EngOp) string
	// Skip prunes programs that are not worth running (e.g. maintenance as first op).
	Skip func(prog []EngOp) bool
	// NoDedup disables state de-duplication (cross-check).
	NoDedup bool
}

func seqxRun(sp *seqxSpec, first []EngOp, env *fw.Env, unit string, res *fw.Result) {
	dir := fw.Scratch("seqx")
	visited := map[[16]byte]int{}
	var rec func(prog []EngOp)
	rec = func(prog []EngOp) {
		if env.Expired() {
			if res.Exhaustive {
				res.Caps = append(res.Caps, fmt.Sprintf("%s: deadline hit at program length %d", unit, len(prog)))
			}
			res.Exhaustive = false
			return
		}
		if sp.Skip != nil && sp.Skip(prog) {
			return
		}
		var key string
		var problem string
		fw.Progress("seqx " + sp.Cfg.Name + " " + progString(prog))
		out, detail := runEngProg(filepath.Join(dir, "db"), sp.Cfg, prog, func(r *EngRun, err error) {
			if err != nil {
				problem = "reopen-failed\n" + err.Error()
				if r == nil {
					problem = "open-failed\n" + err.Error()
				}
				return
			}
			if r.EffectiveCompactions > 0 {
				res.Count("programs_with_effective_compaction", 1)
			}
			key = r.StateKey() // before the oracle: some oracles close or restart the engine
			problem = sp.Oracle(r, prog)
		})
		res.Evaluations++
		res.Transitions++
		res.Traces++
		if out != vsched.OK {
			problem = out.String() + "\n" + detail
		}
		if problem != "" {
			class := firstLine(problem)
			res.Violate(fw.FP(sp.Prop, sp.Cfg.Name, class, progString(prog)), fmt.Sprintf("[%s] %s: %s", sp.Cfg.Name, progString(prog), problem), unit,
				map[string]any{"kind": "eng-prog", "cfg": sp.Cfg.Name, "prog": prog, "problem": problem})
			return // a violating state is not extended
		}
		if len(prog) >= 2 {
			res.Nontrivial++
		}
		if len(res.Samples) < 3 && len(prog) == sp.Depth {
			res.Sample(map[string]any{"cfg": sp.Cfg.Name, "program": progString(prog)})
		}
		remaining := sp.Depth - len(prog)
		if !sp.NoDedup {
			h := sha256.Sum256([]byte(key))
			var k [16]byte
			copy(k[:], h[:16])
			if old, ok := visited[k]; ok && old >= remaining {
				res.Count("merged_by_state_key", 1)
				return
			}
			if _, ok := visited[k]; !ok {
				res.States++
			}
			visited[k] = remaining
		} else {
			res.States++
		}
		if remaining == 0 {
			return
		}
		for _, a := range sp.Alphabet {
			rec(append(prog[:len(prog):len(prog)], a))
		}
	}
	rec(first)
}

func firstLine(s string) string {
	for i := 0; i < len(s); i++ {
		if s[i] == '\n' {
			return s[:i]
		}
	}
	return s
}
