package harness

import (
	"fmt"
	"path/filepath"
	"strconv"
	"strings"

	"github.com/KevoDB/kevo/pkg/zzverif/vsched"
	"verif/mc/explore"
	"verif/mc/fw"
)

// C04 — transactions are serializable with respect to each other (strictly: consistent with real time).

type c04Obs struct {
	Hist    []kvOp
	Initial map[string]string
	Err     string
	Local   string // violations detected inside a transaction (own writes, repeatable reads)
}

// client kinds: "rw-commit", "rw-rollback", "ro"
func c04Run(kinds []string) any {
	dir := filepath.Join(fw.ProcDir("c04"), "db")
	obs := &c04Obs{Initial: map[string]string{"a": "0", "b": "0"}}
	r, err := newEngRun(dir, engCfgs["big"])
	if err != nil {
		obs.Err = "open: " + err.Error()
		return obs
	}
	defer r.Close()
	r.Eng.Put([]byte("a"), []byte("0"))
	r.Eng.Put([]byte("b"), []byte("0"))
	rec := &recorder{}
	var ts []*vsched.Thread
	// "rw-staged": the writer has begun and written, and is held until all other clients have been started - the
	// state "a read-write transaction is open" is then the starting point of every explored interleaving
	staged, release := make(chan struct{}), make(chan struct{})
	for ci, kind := range kinds {
		ci, kind := ci+1, kind
		if ci == 2 && kinds[0] == "rw-staged" {
			vsched.Recv(staged)
		}
		ts = append(ts, vsched.GoNamed(fmt.Sprintf("X%d", ci), func() {
			rec.do(ci, "tx", "", "", func(o *kvOp) {
				tx, err := r.Eng.BeginTransaction(kind == "ro")
				if err != nil {
					o.Err = "begin: " + err.Error()
					return
				}
				get := func(k string) string {
					v, err := tx.Get([]byte(k))
					if err != nil {
						if isNotFound(err) {
							return "<nf>"
						}
						return "ERR:" + err.Error()
					}
					return string(v)
				}
				switch kind {
				case "ro":
					a1 := get("a")
					b1 := get("b")
					a2 := get("a")
					o.Reads = [][2]string{{"a", a1}, {"b", b1}}
					if a1 != a2 {
						obs.Local = fmt.Sprintf("ro-not-repeatable\nread-only transaction read a=%s and later a=%s", a1, a2)
					}
					it := tx.NewIterator()
					var s []string
					for it.SeekToFirst(); it.Valid(); it.Next() {
						if !it.IsTombstone() {
							s = append(s, string(it.Key())+"="+string(it.Value()))
						}
					}
					if want := "a=" + a1 + ",b=" + b1; strings.Join(s, ",") != want {
						obs.Local = fmt.Sprintf("ro-scan-differs\nread-only transaction read a=%s b=%s but its scan shows %s", a1, b1, strings.Join(s, ","))
					}
					if err := tx.Commit(); err != nil {
						o.Err = "commit: " + err.Error()
					}
				default:
					a := get("a")
					o.Reads = [][2]string{{"a", a}}
					n, _ := strconv.Atoi(a)
					na := strconv.Itoa(n + 1)
					tx.Put([]byte("a"), []byte(na))
					tx.Put([]byte("b"), []byte(fmt.Sprintf("x%d", ci)))
					if got := get("a"); got != na {
						obs.Local = fmt.Sprintf("own-write-invisible\ntransaction wrote a=%s and then read a=%s", na, got)
					}
					o.Writes = [][2]string{{"a", na}, {"b", fmt.Sprintf("x%d", ci)}}
					if kind == "rw-staged" {
						vsched.Close(staged)
						vsched.Recv(release)
					}
					if kind == "rw-commit" || kind == "rw-staged" {
						if err := tx.Commit(); err != nil {
							o.Err = "commit: " + err.Error()
						}
					} else {
						if err := tx.Rollback(); err != nil {
							o.Err = "rollback: " + err.Error()
						}
						o.Writes = nil
					}
				}
			})
		}))
	}
	if kinds[0] == "rw-staged" {
		vsched.Close(release)
	}
	for _, t := range ts {
		vsched.Join(t)
	}
	// final state through a read-only transaction
	rec.do(0, "tx", "", "", func(o *kvOp) {
		tx, err := r.Eng.BeginTransaction(true)
		if err != nil {
			o.Err = err.Error()
			return
		}
		va, _ := tx.Get([]byte("a"))
		vb, _ := tx.Get([]byte("b"))
		o.Reads = [][2]string{{"a", string(va)}, {"b", string(vb)}}
		tx.Commit()
	})
	obs.Hist = rec.Ops
	return obs
}

func c04Check(s *vsched.Sched, o any) (string, string) {
	ob := o.(*c04Obs)
	var k []string
	for _, h := range ob.Hist {
		k = append(k, fmt.Sprintf("c%d:%v", h.Client, h.Reads))
	}
	key := strings.Join(k, " ")
	if ob.Err != "" {
		return key, "operation-failed\n" + ob.Err
	}
	for _, h := range ob.Hist {
		if h.Err != "" {
			return key, "transaction-failed\n" + h.String()
		}
	}
	if ob.Local != "" {
		return key, ob.Local
	}
	if !linearizable(ob.Hist, ob.Initial) {
		return key, "not-strictly-serializable\nhistory: " + histString(ob.Hist)
	}
	return key, ""
}

var c04Defs = map[string][]string{
	"rw-vs-rw":        {"rw-commit", "rw-commit"},
	"rw-vs-ro":        {"rw-commit", "ro"},
	"rw-vs-rollback":  {"rw-commit", "rw-rollback"},
	"rw-rw-ro":        {"rw-commit", "rw-commit", "ro"},
	"rw-ro-ro":        {"rw-commit", "ro", "ro"},
	"rw-rollback-ro":  {"rw-commit", "rw-rollback", "ro"},
	"open-rw-ro-ro":   {"rw-staged", "ro", "ro"},
}

// own view, sequentially: every transaction body of <=3 (4) operations over 2 keys on 3 pre-states (nothing, both keys
// in the memtable, both keys in a table file): inside the transaction every point read and a scan must show the
// committed state with the transaction's own writes laid over it (checked by the engine driver inside every tx step)
func c04OwnViewUnit(unit string, env *fw.Env) *fw.Result {
	res := fw.NewResult()
	var shard, nsh int
	fmt.Sscanf(unit, "ownview/%d/%d", &shard, &nsh)
	engRangeView = true
	maxLen := 3
	if env.Thorough {
		maxLen = 4
	}
	dir := filepath.Join(fw.Scratch("c04v"), "db")
	i := 0
	pres := [][]EngOp{nil, {{Kind: "put", Key: "a"}, {Kind: "put", Key: "b"}}, {{Kind: "put", Key: "a"}, {Kind: "put", Key: "b"}, {Kind: "flush"}, {Kind: "del", Key: "b"}}}
	for _, pre := range pres {
		for _, kind := range []string{"txr", "txc"} {
			for _, body := range c03Bodies(maxLen) {
				i++
				if i%nsh != shard {
					continue
				}
				if env.Expired() {
					res.Exhaustive = false
					return res
				}
				prog := append(append([]EngOp{}, pre...), EngOp{Kind: kind, Sub: body})
				fw.Progress("c04 ownview " + progString(prog))
				var problem string
				out, detail := runEngProg(dir, engCfgs["big"], prog, func(r *EngRun, err error) {
					if err != nil {
						problem = "reopen-failed\n" + err.Error()
						return
					}
					problem = r.TxView
				})
				res.Evaluations++
				res.States++
				res.Transitions++
				res.Traces++
				if len(body) >= 2 {
					res.Nontrivial++
				}
				if out != vsched.OK {
					problem = out.String() + "\n" + detail
				}
				if problem != "" {
					res.Violate(fw.FP("C04", firstLine(problem), progString(prog)), progString(prog)+": "+problem, unit, map[string]any{"kind": "eng-prog", "prog": prog, "problem": problem})
				}
			}
		}
	}
	return res
}

func c04Scenarios() []*explore.Scenario {
	var out []*explore.Scenario
	for _, n := range sortedKeys(c04Defs) {
		kinds := c04Defs[n]
		out = append(out, &explore.Scenario{Name: n, MaxSteps: 3_000_000, Body: func() any { return c04Run(kinds) }, Check: c04Check})
	}
	return out
}

func init() {
	fw.Register(&fw.Check{
		ID:    "C04",
		Level: "model_checking",
		Rule: "stateless exploration of the real engine: 2-3 transaction threads from {read a, write a:=read+1, write b, commit | rollback} and {read-only: read a, read b, read a again, scan}; all interleavings up to the deviation bound (2 for 2 threads, 1 for 3 threads; thorough +1) with happens-before caching. Oracle: porcupine strict serializability over transaction-level operations spanning begin..commit (reads with observed values, write set), own writes visible inside the transaction, read-only transactions repeatable and scan = reads; a final read-only transaction closes the history. Scenario open-rw-ro-ro starts every interleaving from the state 'a read-write transaction is open and has written' with two read-only clients arriving. Non-trivial = executions with a cross-thread conflict. Own view, sequentially: every transaction body of <=3 (4 thorough) put/delete operations over 2 keys (repeated keys included) on 3 pre-states x {rollback, commit}: inside the transaction every point read of a touched key and a full scan must equal the committed state with the transaction's own operations laid over it, last operation on a key winning",
		Assumptions: []string{"non-transactional writes are excluded as the statement excludes them", "SC interleavings of visible operations"},
		Units: func(tier string) []string {
			var us []string
			for _, n := range sortedKeys(c04Defs) {
				b := 2
				if len(c04Defs[n]) == 3 {
					b = 1
				}
				if tier == "thorough" {
					b++
				}
				us = append(us, shardUnits(n, b, 8)...)
			}
			for k := 0; k < 4; k++ {
				us = append(us, fmt.Sprintf("ownview/%d/4", k))
			}
			us = append(us, raceUnits(c04Scenarios(), nil)...)
			return us
		},
		ExeFor: raceExe,
		Run: func(unit string, env *fw.Env) *fw.Result {
			if strings.HasPrefix(unit, "race/") {
				return raceRun("C04", c04Scenarios(), unit, env)
			}
			if strings.HasPrefix(unit, "ownview/") {
				return c04OwnViewUnit(unit, env)
			}
			sp := parseSched(unit)
			for _, sc := range c04Scenarios() {
				if sc.Name == sp.Name {
					return runSched("C04", sc, sp, env, 2)
				}
			}
			r := fw.NewResult()
			r.HarnessErr = "unknown unit " + unit
			return r
		},
		Replay: func(v *fw.Violation) string { return replaySched(FindScenario, v) },
		BudgetQuick: 110, BudgetThorough: 900,
	})
}
