package harness

import (
	"bytes"
	"context"
	"errors"
	"fmt"
	"path/filepath"
	"strings"
	"time"

	"github.com/KevoDB/kevo/pkg/engine/interfaces"
	"github.com/KevoDB/kevo/pkg/transaction"
	"github.com/KevoDB/kevo/pkg/zzverif/vsched"
	"github.com/KevoDB/kevo/pkg/zzverif/vtime"
	"verif/mc/explore"
	"verif/mc/fw"
)

// C17 — every transaction ends and releases the database.

// ---- part A: sequential finish/use sequences on one transaction ----

func c17SeqUnit(unit string, env *fw.Env) *fw.Result {
	res := fw.NewResult()
	// "putbig" buffers a value larger than a log record: the commit of such a transaction fails without any
	// injected fault, which is the one way to reach the failed-commit path through the public API
	acts := []string{"get", "put", "del", "commit", "rollback", "scan", "putbig"}
	depth := 4
	if env.Thorough {
		depth = 5
	}
	dir := filepath.Join(fw.Scratch("c17"), "db")
	var ro bool
	if strings.HasSuffix(unit, "/ro") {
		ro = true
	}
	var rec func(seq []string)
	rec = func(seq []string) {
		if env.Expired() {
			res.Exhaustive = false
			return
		}
		if len(seq) > 0 {
			var problem string
			prog := []EngOp{{Kind: "put", Key: "a", Val: "a0"}}
			out, detail := runEngProg(dir, engCfgs["big"], prog, func(r *EngRun, err error) {
				if err != nil {
					problem = "open-failed\n" + err.Error()
					return
				}
				tx, err := r.Eng.BeginTransaction(ro)
				if err != nil {
					problem = "begin-failed\n" + err.Error()
					return
				}
				finished := ""
				wrote := false
				hasBig := false
				model := cloneModel(r.Model)
				for i, a := range seq {
					closedWant := finished != ""
					var err error
					switch a {
					case "get":
						_, err = tx.Get([]byte("a"))
					case "put":
						err = tx.Put([]byte("b"), []byte(fmt.Sprintf("w%d", i)))
						if err == nil {
							wrote = true
						}
					case "del":
						err = tx.Delete([]byte("a"))
						if err == nil {
							wrote = true
						}
					case "putbig":
						err = tx.Put([]byte("big"), bytes.Repeat([]byte("B"), 40000))
						if err == nil && !closedWant && !ro {
							hasBig = true
						}
					case "scan":
						it := tx.NewIterator()
						it.SeekToFirst()
						if closedWant && it.Valid() {
							problem = fmt.Sprintf("use-after-finish\nscan on a %s transaction still yields %q (sequence %v)", finished, it.Key(), seq)
							return
						}
						continue
					case "commit":
						err = tx.Commit()
						if !closedWant && err != nil && hasBig {
							// a failed commit ends the transaction: nothing applied, the database released
							finished = "failed to commit"
							err = nil
						} else if !closedWant && err == nil && hasBig {
							problem = fmt.Sprintf("oversized-commit-accepted\ncommit of a transaction holding a 40000-byte value succeeded (sequence %v)", seq)
							return
						} else if !closedWant && err == nil {
							finished = "committed"
							if !ro {
								// apply buffered writes to the model
								for j, b := range seq[:i] {
									if b == "put" {
										model["b"] = []byte(fmt.Sprintf("w%d", j))
									} else if b == "del" {
										delete(model, "a")
									}
								}
							}
						}
					case "rollback":
						err = tx.Rollback()
						if !closedWant && err == nil {
							finished = "rolled back"
						}
					}
					if closedWant {
						if err == nil || !(errors.Is(err, transaction.ErrTransactionClosed) || errors.Is(err, interfaces.ErrTransactionClosed)) {
							problem = fmt.Sprintf("use-after-finish\n%s on a %s transaction returned %v, expected the closed error (sequence %v)", a, finished, err, seq)
							return
						}
					} else if err != nil && !(ro && (a == "put" || a == "del" || a == "putbig")) && !(a == "get" && isNotFound(err)) {
						problem = fmt.Sprintf("operation-failed\n%s failed with %v (sequence %v)", a, err, seq)
						return
					}
				}
				_ = wrote
				// the database is released (unless the transaction is still open) and shows exactly the committed effect
				if finished != "" {
					ptx, err := r.Eng.BeginTransaction(false)
					if err != nil {
						problem = "probe-failed\n" + err.Error()
						return
					}
					ptx.Rollback()
				} else {
					tx.Rollback()
				}
				r.Model = model
				if p := r.CheckGets([]string{"a", "b"}); p != "" {
					problem = "finish-effect-" + firstLine(p) + "\nafter " + fmt.Sprint(seq) + ": " + p
				}
			})
			res.Evaluations++
			res.States++
			res.Transitions++
			res.Traces++
			if len(seq) >= 2 {
				res.Nontrivial++
			}
			if out != vsched.OK {
				problem = out.String() + "\n" + detail
			}
			if problem != "" {
				res.Violate(fw.FP("C17", "seq", firstLine(problem), fmt.Sprint(seq), fmt.Sprint(ro)), fmt.Sprintf("tx(ro=%v) %v: %s", ro, seq, problem), unit, map[string]any{"kind": "tx-seq", "seq": seq, "ro": ro})
				return
			}
			if len(res.Samples) < 2 && len(seq) == depth {
				res.Sample(fmt.Sprintf("tx(ro=%v) %v", ro, seq))
			}
		}
		if len(seq) == depth {
			return
		}
		for _, a := range acts {
			rec(append(seq[:len(seq):len(seq)], a))
		}
	}
	rec(nil)
	return res
}

// ---- part B: schedules over the registry ----

type c17Obs struct {
	Events []string
	Err    string
	Final  map[string]string
}

type c17Def struct {
	Name string
	Env  map[string]int
	Run  func(x *c17Ctx)
}

type c17Ctx struct {
	r   *EngRun
	reg transaction.Registry
	obs *c17Obs
}

func (x *c17Ctx) ev(format string, a ...any) {
	if !vsched.Installed() {
		return // free-running race pass: no events are evaluated
	}
	x.obs.Events = append(x.obs.Events, fmt.Sprintf(format, a...))
}

func peerCtx(peer string) context.Context {
	return context.WithValue(context.Background(), "peer", peer)
}

// client: begin through the registry; on success run f and report
func (x *c17Ctx) client(name string, readOnly bool, f func(id string, tx transaction.Transaction)) *vsched.Thread {
	return vsched.GoNamed(name, func() {
		id, err := x.reg.Begin(peerCtx("conn-"+name), x.r.Eng, readOnly)
		if err != nil {
			x.ev("%s:begin-err", name)
			return
		}
		tx, ok := x.reg.Get(id)
		if !ok {
			x.ev("%s:begin-ok-but-unknown-handle", name)
			return
		}
		x.ev("%s:begin-ok", name)
		f(id, tx)
	})
}

func c17Defs() []c17Def {
	commit := func(x *c17Ctx, name, key string) func(id string, tx transaction.Transaction) {
		return func(id string, tx transaction.Transaction) {
			tx.Put([]byte(key), []byte(name))
			if err := tx.Commit(); err != nil {
				x.ev("%s:commit-err", name)
			} else {
				x.ev("%s:commit-ok", name)
			}
			x.reg.Remove(id)
		}
	}
	stale := func(x *c17Ctx) {
		vtime.Advance(31 * time.Second)
		x.reg.(*transaction.RegistryImpl).CleanupStaleTransactions()
	}
	return []c17Def{
		{Name: "begin-timeout", Env: map[string]int{"deadline:transaction/registry.go": 1}, Run: func(x *c17Ctx) {
			a := x.client("A", false, commit(x, "A", "a"))
			b := x.client("B", false, commit(x, "B", "b"))
			vsched.Join(a)
			vsched.Join(b)
		}},
		{Name: "begin-timeout-ro", Env: map[string]int{"deadline:transaction/registry.go": 1}, Run: func(x *c17Ctx) {
			a := x.client("A", false, commit(x, "A", "a"))
			b := x.client("B", true, func(id string, tx transaction.Transaction) { tx.Get([]byte("a")); tx.Commit(); x.reg.Remove(id) })
			vsched.Join(a)
			vsched.Join(b)
		}},
		{Name: "abandon-idle", Run: func(x *c17Ctx) {
			a := x.client("A", false, func(id string, tx transaction.Transaction) { tx.Put([]byte("a"), []byte("A")) })
			b := x.client("B", true, func(id string, tx transaction.Transaction) { tx.Get([]byte("a")) })
			vsched.Join(a)
			vsched.Join(b)
			stale(x)
		}},
		{Name: "abandon-idle-under-traffic", Run: func(x *c17Ctx) {
			// the service runs the stale-transaction pass before every begin request: requests keep arriving every 2 s
			// while the abandoned writer passes its idle limit (30 s)
			a := x.client("A", false, func(id string, tx transaction.Transaction) { tx.Put([]byte("a"), []byte("A")) })
			vsched.Join(a)
			for i := 0; i < 20; i++ {
				vtime.Advance(2 * time.Second)
				x.reg.(*transaction.RegistryImpl).CleanupStaleTransactions()
			}
		}},
		{Name: "abandon-idle-ticker", Env: map[string]int{"ticker:transaction/registry.go": 2}, Run: func(x *c17Ctx) {
			a := x.client("A", false, func(id string, tx transaction.Transaction) { tx.Put([]byte("a"), []byte("A")) })
			vsched.Join(a)
			// the cleanup goroutine does the work when its ticker fires (each firing advances the clock by 30 s)
			vtime.Advance(2 * time.Second)
			vsched.Quiesce()
			stale(x)
		}},
		{Name: "abandon-connection", Run: func(x *c17Ctx) {
			a := x.client("A", false, func(id string, tx transaction.Transaction) { tx.Put([]byte("a"), []byte("A")) })
			c := vsched.GoNamed("C", func() { x.reg.CleanupConnection("conn-A") })
			vsched.Join(a)
			vsched.Join(c)
			x.reg.CleanupConnection("conn-A")
		}},
		{Name: "abandon-connection-ro", Run: func(x *c17Ctx) {
			// an abandoned read-only transaction holds the lock shared: its connection's cleanup has to end it too
			b := x.client("B", true, func(id string, tx transaction.Transaction) { tx.Get([]byte("a")) })
			c := vsched.GoNamed("C", func() { x.reg.CleanupConnection("conn-B") })
			vsched.Join(b)
			vsched.Join(c)
			x.reg.CleanupConnection("conn-B")
		}},
		{Name: "shutdown", Run: func(x *c17Ctx) {
			a := x.client("A", false, func(id string, tx transaction.Transaction) { tx.Put([]byte("a"), []byte("A")) })
			b := x.client("B", true, func(id string, tx transaction.Transaction) { tx.Get([]byte("a")) })
			vsched.Join(a)
			vsched.Join(b)
			if err := x.reg.GracefulShutdown(context.Background()); err != nil {
				x.ev("shutdown-err")
			}
		}},
		{Name: "shutdown-cancelled-ctx", Run: func(x *c17Ctx) {
			// the shutdown context is already done when the registry gets to the abandoned transaction (a server
			// whose own stop ran into its deadline): the transaction must be rolled back all the same
			a := x.client("A", false, func(id string, tx transaction.Transaction) { tx.Put([]byte("a"), []byte("A")) })
			vsched.Join(a)
			ctx, cancel := context.WithCancel(context.Background())
			cancel()
			x.reg.GracefulShutdown(ctx)
		}},
		{Name: "ro-begins", Run: func(x *c17Ctx) {
			// read-only begins do not exclude each other: two of them at once, then a writer
			ro := func(id string, tx transaction.Transaction) { tx.Get([]byte("a")); tx.Commit(); x.reg.Remove(id) }
			r1 := x.client("R1", true, ro)
			r2 := x.client("R2", true, ro)
			vsched.Join(r1)
			vsched.Join(r2)
			x.reg.CleanupConnection("conn-R1")
			x.reg.CleanupConnection("conn-R2")
			a := x.client("A", false, commit(x, "A", "a"))
			vsched.Join(a)
		}},
		{Name: "commit-vs-rollback", Run: func(x *c17Ctx) {
			a := x.client("A", false, func(id string, tx transaction.Transaction) {
				tx.Put([]byte("a"), []byte("A"))
				t1 := vsched.GoNamed("A1", func() {
					if tx.Commit() == nil {
						x.ev("A:commit-ok")
					}
				})
				t2 := vsched.GoNamed("A2", func() {
					if tx.Rollback() == nil {
						x.ev("A:rollback-ok")
					}
				})
				vsched.Join(t1)
				vsched.Join(t2)
				x.reg.Remove(id)
			})
			vsched.Join(a)
		}},
		{Name: "cleanup-vs-commit", Run: func(x *c17Ctx) {
			a := x.client("A", false, func(id string, tx transaction.Transaction) {
				tx.Put([]byte("a"), []byte("A"))
				vtime.Advance(31 * time.Second)
				if err := tx.Commit(); err != nil {
					x.ev("A:commit-err")
				} else {
					x.ev("A:commit-ok")
				}
				x.reg.Remove(id)
			})
			c := vsched.GoNamed("C", func() { x.reg.(*transaction.RegistryImpl).CleanupStaleTransactions() })
			vsched.Join(a)
			vsched.Join(c)
			stale(x)
		}},
	}
}

// c17RaceScenario: scenarios whose free run needs no 10 s / 30 s real-time wait.
func c17RaceScenario(name string) bool {
	switch name {
	case "ro-begins", "commit-vs-rollback", "cleanup-vs-commit", "abandon-connection", "abandon-connection-ro":
		return true
	}
	return false
}

func c17Scenarios() []*explore.Scenario {
	var out []*explore.Scenario
	for _, d := range c17Defs() {
		d := d
		if d.Env == nil {
			d.Env = map[string]int{}
		}
		if _, ok := d.Env["deadline:transaction/registry.go"]; !ok {
			// a begin that waits for the lock times out after 10 s in reality: without this event a waiting begin
			// behind an abandoned transaction would look like a deadlock of the harness
			d.Env["deadline:transaction/registry.go"] = 2
		}
		out = append(out, &explore.Scenario{Name: d.Name, MaxSteps: 3_000_000, EnvBudgets: d.Env,
			Body: func() any {
				dir := filepath.Join(fw.ProcDir("c17"), "db")
				obs := &c17Obs{Final: map[string]string{}}
				r, err := newEngRun(dir, engCfgs["big"])
				if err != nil {
					obs.Err = "open: " + err.Error()
					return obs
				}
				defer r.Close()
				x := &c17Ctx{r: r, reg: transaction.NewRegistry(), obs: obs}
				d.Run(x)
				// whatever happened: the database must be free again (a blocked probe shows up as a deadlock witness)
				ptx, err := r.Eng.BeginTransaction(false)
				if err != nil {
					obs.Err = "probe: " + err.Error()
					return obs
				}
				ptx.Rollback()
				for _, k := range []string{"a", "b"} {
					if v, err := r.Eng.Get([]byte(k)); err == nil {
						obs.Final[k] = string(v)
					}
				}
				return obs
			},
			Check: func(s *vsched.Sched, o any) (string, string) {
				ob := o.(*c17Obs)
				key := strings.Join(ob.Events, ",") + fmt.Sprint(ob.Final)
				if ob.Err != "" {
					return key, "operation-failed\n" + ob.Err
				}
				has := func(e string) bool {
					for _, x := range ob.Events {
						if x == e {
							return true
						}
					}
					return false
				}
				// a write is visible iff its commit reported success
				for _, c := range [][2]string{{"A", "a"}, {"B", "b"}} {
					vis := ob.Final[c[1]] == c[0]
					ok := has(c[0] + ":commit-ok")
					if d.Name == "commit-vs-rollback" && has("A:commit-ok") && has("A:rollback-ok") {
						return key, "finished-twice\ncommit and rollback of one transaction both reported success"
					}
					if vis && !ok {
						return key, fmt.Sprintf("uncommitted-write-visible\n%s=%s is visible but no commit of %s succeeded (events %v)", c[1], c[0], c[0], ob.Events)
					}
					if ok && !vis {
						return key, fmt.Sprintf("committed-write-lost\ncommit of %s succeeded but %s reads %q (events %v)", c[0], c[1], ob.Final[c[1]], ob.Events)
					}
				}
				return key, ""
			}})
	}
	return out
}

func init() {
	fw.Register(&fw.Check{
		ID:    "C17",
		Level: "model_checking",
		Rule: "(A) every sequence of <=4 (5 thorough) calls {get, put, delete, scan, commit, rollback} on one read-write and one read-only transaction: the first successful finish takes effect once, every later call returns the closed error and changes nothing, the database is free afterwards (probe begin) and shows exactly the committed effect. " +
			"(A2) the same through the network service and its registry: every sequence of <=3 (4 thorough) requests {TxGet, TxPut, TxDelete, TxPut with an empty / 4097-byte key, TxDelete / TxGet with an empty key, TxPut of a value no log record holds, Commit, Rollback} on one read-write and one read-only handle, then the client's rollback request and the cleanup of its connection: a probe writer is granted, a finished handle cannot be finished again, the data shows exactly the effect of a successful commit. " +
			"(B) stateless exploration of 12 registry scenarios (connection cleanup of an abandoned read-write and of an abandoned read-only transaction) (idle cleanup also under a steady stream of cleanup calls 2 s apart) (graceful shutdown also with a context that is already cancelled) (2-3 threads; two simultaneous read-only begins followed by a writer is the ninth): begin waiting for the lock while the 10 s begin timeout fires as an environment event (every ready select case explored), abandonment followed by idle cleanup (direct and through the cleanup ticker), connection cleanup, graceful shutdown, commit racing rollback, stale cleanup racing commit; all interleavings up to the deviation bound (2 quick, 3 thorough) with happens-before caching. Oracle: after every terminal state a probe BeginTransaction(false) is granted (otherwise the scheduler reports the deadlock with the blocked sites), a write is visible iff its commit reported success, commit and rollback never both succeed. (C) the scenarios without long real-time waits run free in a -race build (8 / 100 iterations each): any race report, panic or hang is a violation - the exploration interleaves at synchronisation operations only, which is sufficient only if there is no unsynchronised access. Non-trivial = executions with a cross-thread conflict",
		Assumptions: []string{"virtual time: the 10 s begin timeout, the 30 s idle limit and the cleanup ticker are environment events / clock jumps", "a client never requests a second transaction while holding one (excluded by the statement)"},
		Units: func(tier string) []string {
			us := []string{"seq/rw", "seq/ro", "svcseq/rw", "svcseq/ro"}
			b := 2
			if tier == "thorough" {
				b = 3
			}
			for _, d := range c17Defs() {
				n := 4
				if strings.HasPrefix(d.Name, "begin-timeout") {
					n = 16
				}
				bb := b
				if d.Name == "ro-begins" {
					bb = b - 1
				}
				us = append(us, shardUnits(d.Name, bb, n)...)
			}
			// free-running race pass over the scenarios without long real-time waits
			us = append(us, raceUnits(c17Scenarios(), c17RaceScenario)...)
			return us
		},
		ExeFor: raceExe,
		Run: func(unit string, env *fw.Env) *fw.Result {
			if strings.HasPrefix(unit, "seq/") {
				return c17SeqUnit(unit, env)
			}
			if strings.HasPrefix(unit, "svcseq/") {
				return c17SvcSeqUnit(unit, env)
			}
			if strings.HasPrefix(unit, "race/") {
				return raceRun("C17", c17Scenarios(), unit, env)
			}
			sp := parseSched(unit)
			for _, sc := range c17Scenarios() {
				if sc.Name == sp.Name {
					return runSched("C17", sc, sp, env, 1)
				}
			}
			r := fw.NewResult()
			r.HarnessErr = "unknown unit " + unit
			return r
		},
		Replay: func(v *fw.Violation) string {
			if w, ok := v.Witness.(map[string]any); ok && w["kind"] == "schedule" {
				return replaySched(FindScenario, v)
			}
			return fmt.Sprintf("re-run: kvcheck one C17 quick %s\nwitness: %v", v.Unit, v.Witness)
		},
		BudgetQuick: 150, BudgetThorough: 900,
	})
}
