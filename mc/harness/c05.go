package harness

import (
	"bytes"
	"encoding/json"
	"fmt"
	"os"
	"path/filepath"
	"sort"
	"strings"

	"github.com/KevoDB/kevo/pkg/common/iterator"
	"github.com/KevoDB/kevo/pkg/common/iterator/filtered"
	"github.com/KevoDB/kevo/pkg/engine"
	"github.com/KevoDB/kevo/pkg/engine/storage"
	"github.com/KevoDB/kevo/pkg/wal"
	"github.com/KevoDB/kevo/pkg/zzverif/vsched"
	"verif/mc/explore"
	"verif/mc/fw"
)

// C05 — scans return exactly the live keys, once, in order, within bounds.

var c05Shapes = []string{"mem", "imm2+act", "sst+imm+act", "sst2+act", "sst2+act+reopen", "sst3-logretired", "sst2-logretired+act"}

// cell: 0 absent, 1 value, 2 tombstone
type c05Arr struct {
	Keys  []string
	Cells [][]int // [layer][key]
}

func (a c05Arr) String() string {
	var ls []string
	for li, l := range a.Cells {
		var cs []string
		for ki, c := range l {
			switch c {
			case 1:
				cs = append(cs, a.Keys[ki]+"=v")
			case 2:
				cs = append(cs, a.Keys[ki]+"=DEL")
			}
		}
		ls = append(ls, fmt.Sprintf("L%d{%s}", li+1, strings.Join(cs, ",")))
	}
	return strings.Join(ls, " ")
}

func retireLogs(dir string) {
	files, _ := wal.FindWALFiles(filepath.Join(dir, "wal"))
	for i, f := range files {
		if i < len(files)-1 {
			os.Remove(f)
		}
	}
}

// c05Build builds the arrangement in the given stack shape; returns run (engine open) and model.
func c05Build(dir string, shape string, a c05Arr) (*EngRun, error) {
	r, err := newEngRun(dir, engCfgs["big"])
	if err != nil {
		return nil, err
	}
	sm := r.Eng.VerifStorage().(*storage.Manager)
	writeLayer := func(li int) {
		for ki, c := range a.Cells[li] {
			switch c {
			case 1:
				r.Apply(EngOp{Kind: "put", Key: a.Keys[ki], Val: fmt.Sprintf("%s.L%d", a.Keys[ki], li+1)})
			case 2:
				r.Apply(EngOp{Kind: "del", Key: a.Keys[ki]})
			}
		}
	}
	sw := func() { sm.VerifSwitch() }
	toSST := func() { sm.VerifSwitch(); vsched.Quiesce() }
	reopen := func(retire bool) error {
		r.Eng.Close()
		if retire {
			retireLogs(dir)
		}
		e, err := engine.NewEngineFacade(dir)
		if err != nil {
			return err
		}
		r.Eng = e
		return nil
	}
	n := len(a.Cells)
	switch shape {
	case "mem":
		for l := 0; l < n; l++ {
			writeLayer(l)
		}
	case "imm2+act":
		for l := 0; l < n; l++ {
			writeLayer(l)
			if l < n-1 {
				sw()
			}
		}
	case "sst+imm+act":
		for l := 0; l < n; l++ {
			writeLayer(l)
			if l == 0 {
				toSST()
			} else if l < n-1 {
				sw()
			}
		}
	case "sst2+act", "sst2+act+reopen":
		for l := 0; l < n; l++ {
			writeLayer(l)
			if l < n-1 {
				toSST()
			}
		}
		if shape == "sst2+act+reopen" {
			if err := reopen(false); err != nil {
				return r, err
			}
		}
	case "sst3-logretired":
		for l := 0; l < n; l++ {
			writeLayer(l)
			toSST()
		}
		if err := reopen(true); err != nil {
			return r, err
		}
	case "sst2-logretired+act":
		for l := 0; l < n-1; l++ {
			writeLayer(l)
			toSST()
		}
		if err := reopen(true); err != nil {
			return r, err
		}
		writeLayer(n - 1)
	}
	return r, nil
}

type kv struct{ K, V string }

func modelSorted(m map[string][]byte) []kv {
	var out []kv
	for k, v := range m {
		out = append(out, kv{k, string(v)})
	}
	sort.Slice(out, func(i, j int) bool { return out[i].K < out[j].K })
	return out
}

// drain collects live entries from the current position (consumer skips tombstones).
func drain(it iterator.Iterator) ([]kv, string) {
	var out []kv
	n := 0
	for it.Valid() {
		if n++; n > 1000 {
			return out, "nonterminating"
		}
		if !it.IsTombstone() {
			out = append(out, kv{string(it.Key()), string(it.Value())})
		}
		if !it.Next() {
			break
		}
	}
	return out, ""
}

func inRange(k string, lo, hi []byte) bool {
	if lo != nil && k < string(lo) {
		return false
	}
	if hi != nil && k >= string(hi) {
		return false
	}
	return true
}

func cmpKV(got, want []kv) string {
	for i := 0; i < len(got) || i < len(want); i++ {
		if i >= len(got) {
			return fmt.Sprintf("missing %q (got %v want %v)", want[i].K, got, want)
		}
		if i >= len(want) {
			return fmt.Sprintf("extra %q (got %v want %v)", got[i].K, got, want)
		}
		if got[i] != want[i] {
			return fmt.Sprintf("position %d: got %v want %v (got %v want %v)", i, got[i], want[i], got, want)
		}
	}
	return ""
}

// scanSuite runs every scan form against the expected view. all = keys present in any layer incl. tombstoned (for raw positions).
// mk creates iterators: full and ranged.
func scanSuite(full func() iterator.Iterator, ranged func(lo, hi []byte) iterator.Iterator, view map[string][]byte, everKeys []string, targets [][]byte) string {
	want := modelSorted(view)
	// full scan
	it := full()
	it.SeekToFirst()
	got, p := drain(it)
	if p != "" {
		return "full-scan-" + p
	}
	if d := cmpKV(got, want); d != "" {
		return "full-scan\nfull scan: " + d
	}
	sub := func(lo, hi []byte) []kv {
		var o []kv
		for _, e := range want {
			if inRange(e.K, lo, hi) {
				o = append(o, e)
			}
		}
		return o
	}
	// Seek(t): smallest live key >= t after skipping tombstones; raw position must be >= t
	for _, t := range targets {
		it := full()
		ok := it.Seek(t)
		if it.Valid() && bytes.Compare(it.Key(), t) < 0 {
			return fmt.Sprintf("seek-before-target\nSeek(%q) positioned on %q", t, it.Key())
		}
		_ = ok
		got, p := drain(it)
		if p != "" {
			return "seek-" + p
		}
		if d := cmpKV(got, sub(t, nil)); d != "" {
			return fmt.Sprintf("seek\nSeek(%q) then iterate: %s", t, d)
		}
	}
	// SeekToLast: greatest key of the merged view (live or deleted)
	sort.Strings(everKeys)
	it = full()
	it.SeekToLast()
	if len(everKeys) == 0 {
		if it.Valid() {
			return fmt.Sprintf("seek-to-last\nSeekToLast valid on %q in an empty view", it.Key())
		}
	} else {
		g := everKeys[len(everKeys)-1]
		if !it.Valid() || string(it.Key()) != g {
			return fmt.Sprintf("seek-to-last\nSeekToLast -> valid=%v key=%q, greatest key is %q", it.Valid(), it.Key(), g)
		}
		if v, live := view[g]; live {
			if it.IsTombstone() || string(it.Value()) != string(v) {
				return fmt.Sprintf("seek-to-last-value\nSeekToLast on %q: tombstone=%v value=%q, latest value %q", g, it.IsTombstone(), it.Value(), v)
			}
		} else if !it.IsTombstone() {
			return fmt.Sprintf("seek-to-last-value\nSeekToLast on deleted key %q is not reported as tombstone (value %q)", g, it.Value())
		}
	}
	// ranges [lo,hi)
	bounds := append([][]byte{nil}, targets...)
	if len(bounds) > 10 {
		// many targets (physical-shape runs): every 5th as bound
		b := [][]byte{nil}
		for i := 0; i < len(targets); i += 5 {
			b = append(b, targets[i])
		}
		bounds = b
	}
	for _, lo := range bounds {
		for _, hi := range bounds {
			it := ranged(lo, hi)
			it.SeekToFirst()
			got, p := drain(it)
			if p != "" {
				return "range-scan-" + p
			}
			if d := cmpKV(got, sub(lo, hi)); d != "" {
				return fmt.Sprintf("range-scan\nrange [%q,%q): %s", lo, hi, d)
			}
			// Seek inside the range
			for _, t := range targets {
				it := ranged(lo, hi)
				it.Seek(t)
				got, p := drain(it)
				if p != "" {
					return "range-seek-" + p
				}
				eff := t
				if lo != nil && bytes.Compare(eff, lo) < 0 {
					eff = lo
				}
				if d := cmpKV(got, sub(eff, hi)); d != "" {
					return fmt.Sprintf("range-seek\nrange [%q,%q) Seek(%q): %s", lo, hi, t, d)
				}
			}
			// re-positioning one iterator: after SeekToFirst (and after each earlier Seek) every target again, in
			// both orders, including targets before lo and at or behind hi
			{
				it := ranged(lo, hi)
				it.SeekToFirst()
				order := append(append([][]byte{}, targets...), nil)
				for i := len(targets) - 1; i >= 0; i-- {
					order = append(order, targets[i])
				}
				for _, t := range order {
					if t == nil {
						it.SeekToLast()
						continue
					}
					it.Seek(t)
					eff := t
					if lo != nil && bytes.Compare(eff, lo) < 0 {
						eff = lo
					}
					if it.Valid() && (bytes.Compare(it.Key(), eff) < 0 || (hi != nil && bytes.Compare(it.Key(), hi) >= 0)) {
						return fmt.Sprintf("range-reseek-position\nrange [%q,%q): Seek(%q) on an already positioned iterator lands on %q", lo, hi, t, it.Key())
					}
					for it.Valid() && it.IsTombstone() {
						it.Next()
					}
					w := sub(eff, hi)
					if len(w) == 0 {
						if it.Valid() {
							return fmt.Sprintf("range-reseek\nrange [%q,%q): Seek(%q) on an already positioned iterator yields %q, nothing is live there", lo, hi, t, it.Key())
						}
					} else if !it.Valid() || string(it.Key()) != w[0].K || string(it.Value()) != string(w[0].V) {
						return fmt.Sprintf("range-reseek\nrange [%q,%q): Seek(%q) on an already positioned iterator yields valid=%v %q, first live key there is %q", lo, hi, t, it.Valid(), it.Key(), w[0].K)
					}
				}
			}
			// SeekToLast inside the range: greatest key (live or deleted) below hi and >= lo
			var g *string
			for i := range everKeys {
				if inRange(everKeys[i], lo, hi) {
					g = &everKeys[i]
				}
			}
			it = ranged(lo, hi)
			it.SeekToLast()
			if g == nil {
				if it.Valid() {
					return fmt.Sprintf("range-seek-to-last\nrange [%q,%q) SeekToLast valid on %q, range is empty", lo, hi, it.Key())
				}
			} else if !it.Valid() || string(it.Key()) != *g {
				return fmt.Sprintf("range-seek-to-last\nrange [%q,%q) SeekToLast -> valid=%v key=%q, greatest key in range is %q", lo, hi, it.Valid(), it.Key(), *g)
			}
		}
	}
	// prefix / suffix filters (as the service builds them)
	for _, pf := range [][]byte{[]byte("k"), []byte("k1"), []byte("z"), []byte("")} {
		it := filtered.NewPrefixIterator(full(), pf)
		it.SeekToFirst()
		got, p := drain(it)
		if p != "" {
			return "prefix-scan-" + p
		}
		var w []kv
		for _, e := range want {
			if strings.HasPrefix(e.K, string(pf)) {
				w = append(w, e)
			}
		}
		if d := cmpKV(got, w); d != "" {
			return fmt.Sprintf("prefix-scan\nprefix %q: %s", pf, d)
		}
	}
	for _, sf := range [][]byte{[]byte("1"), []byte("x"), []byte("2x")} {
		it := filtered.NewSuffixIterator(full(), sf)
		it.SeekToFirst()
		got, p := drain(it)
		if p != "" {
			return "suffix-scan-" + p
		}
		var w []kv
		for _, e := range want {
			if strings.HasSuffix(e.K, string(sf)) {
				w = append(w, e)
			}
		}
		if d := cmpKV(got, w); d != "" {
			return fmt.Sprintf("suffix-scan\nsuffix %q: %s", sf, d)
		}
	}
	return ""
}

var c05KeyNames = []string{"k1", "k2x", "k3"}

func c05Targets() [][]byte {
	return [][]byte{[]byte("a"), []byte("k1"), []byte("k15"), []byte("k2x"), []byte("k2y"), []byte("k3"), []byte("k4")}
}

func c05EvalArr(dir, shape string, a c05Arr, withTx bool) (problem string, out vsched.Outcome, detail string) {
	os.RemoveAll(dir)
	var r *EngRun
	// the arrangement is built under the deterministic scheduler (background flush runs exactly where the
	// shape says); the scan suite then runs on the quiescent engine with the shims in pass-through mode
	s := vsched.Run(vsched.Config{Bound: 0, NoEnv: true, MaxSteps: 3_000_000}, func() {
		var err error
		r, err = c05Build(dir, shape, a)
		if err != nil {
			problem = "build-failed\n" + err.Error()
		}
	})
	defer os.RemoveAll(dir)
	if r != nil {
		defer r.Close()
	}
	if s.Out != vsched.OK || problem != "" || r == nil {
		return problem, s.Out, s.Detail
	}
	problem = c05Suite(r, a, withTx)
	return problem, s.Out, s.Detail
}

func c05Suite(r *EngRun, a c05Arr, withTx bool) (problem string) {
	defer func() {
		if x := recover(); x != nil {
			problem = fmt.Sprintf("panic\n%v", x)
		}
	}()
	ever := map[string]bool{}
	for _, l := range a.Cells {
		for ki, c := range l {
			if c != 0 {
				ever[a.Keys[ki]] = true
			}
		}
	}
	var everKeys []string
	for k := range ever {
		everKeys = append(everKeys, k)
	}
	full := func() iterator.Iterator { it, _ := r.Eng.GetIterator(); return it }
	ranged := func(lo, hi []byte) iterator.Iterator { it, _ := r.Eng.GetRangeIterator(lo, hi); return it }
	if p := scanSuite(full, ranged, r.Model, everKeys, c05Targets()); p != "" {
		return p
	}
	if !withTx {
		return ""
	}
	// inside a transaction, with each single-operation overlay
	overlays := [][]EngOp{nil, {{Kind: "put", Key: "k15"}}, {{Kind: "put", Key: a.Keys[0]}}, {{Kind: "del", Key: a.Keys[1]}}, {{Kind: "del", Key: "k9"}}}
	for _, ov := range overlays {
		tx, err := r.Eng.BeginTransaction(false)
		if err != nil {
			return "tx-begin-failed\n" + err.Error()
		}
		view := map[string][]byte{}
		for k, v := range r.Model {
			view[k] = v
		}
		ek := append([]string{}, everKeys...)
		for _, o := range ov {
			if o.Kind == "put" {
				tx.Put([]byte(o.Key), []byte("tx-"+o.Key))
				view[o.Key] = []byte("tx-" + o.Key)
			} else {
				tx.Delete([]byte(o.Key))
				delete(view, o.Key)
			}
			found := false
			for _, k := range ek {
				if k == o.Key {
					found = true
				}
			}
			if !found {
				ek = append(ek, o.Key)
			}
		}
		p := scanSuite(func() iterator.Iterator { return tx.NewIterator() }, func(lo, hi []byte) iterator.Iterator { return tx.NewRangeIterator(lo, hi) }, view, ek, c05Targets())
		tx.Rollback()
		if p != "" {
			return "tx-" + firstLine(p) + "\nin transaction with overlay " + progString(ov) + ": " + p
		}
	}
	// read-only transaction sees the same
	tx, err := r.Eng.BeginTransaction(true)
	if err == nil {
		p := scanSuite(func() iterator.Iterator { return tx.NewIterator() }, func(lo, hi []byte) iterator.Iterator { return tx.NewRangeIterator(lo, hi) }, r.Model, everKeys, c05Targets())
		tx.Rollback()
		if p != "" {
			return "rotx-" + firstLine(p) + "\nin read-only transaction: " + p
		}
	}
	return ""
}

func c05ArrUnit(unit string, env *fw.Env) *fw.Result {
	res := fw.NewResult()
	parts := strings.Split(unit, "/")
	shape := parts[1]
	var nk, nl, shard, nsh int
	fmt.Sscanf(parts[2], "%dx%d", &nk, &nl)
	fmt.Sscanf(parts[3], "%d", &shard)
	fmt.Sscanf(parts[4], "%d", &nsh)
	dir := filepath.Join(fw.Scratch("c05"), "db")
	total := 1
	for i := 0; i < nk*nl; i++ {
		total *= 3
	}
	for code := 0; code < total; code++ {
		if code%nsh != shard {
			continue
		}
		if env.Expired() {
			res.Exhaustive = false
			res.Caps = append(res.Caps, fmt.Sprintf("%s: stopped at arrangement %d of %d", unit, code, total))
			break
		}
		a := c05Arr{Keys: c05KeyNames[:nk]}
		c := code
		nonEmptyLayers := 0
		for l := 0; l < nl; l++ {
			row := make([]int, nk)
			ne := false
			for k := 0; k < nk; k++ {
				row[k] = c % 3
				c /= 3
				if row[k] != 0 {
					ne = true
				}
			}
			if ne {
				nonEmptyLayers++
			}
			a.Cells = append(a.Cells, row)
		}
		fw.Progress("c05 " + shape + " " + a.String())
		problem, out, detail := c05EvalArr(dir, shape, a, true)
		res.Evaluations++
		res.Traces++
		res.Transitions++
		res.States++
		if nonEmptyLayers >= 2 {
			res.Nontrivial++
		}
		if out != vsched.OK {
			problem = out.String() + "\n" + detail
		}
		if problem != "" {
			res.Violate(fw.FP("C05", shape, firstLine(problem), a.String()), fmt.Sprintf("[%s] %s: %s", shape, a.String(), problem), unit,
				map[string]any{"kind": "arrangement", "shape": shape, "arr": a, "problem": problem})
		}
		if len(res.Samples) < 2 && nonEmptyLayers == nl {
			res.Sample(map[string]any{"shape": shape, "arrangement": a.String()})
		}
	}
	return res
}

func init() {
	fw.Register(&fw.Check{
		ID:    "C05",
		Level: "model_checking",
		Rule: "layer arrangements: every assignment {absent,value,tombstone} of 2 keys x 3 layers and 3 keys x 2 layers (quick) / 3 keys x 3 layers = 19683 (thorough), built oldest layer first on the real engine in 7 stack shapes (one memtable; 2 immutables+active; SST+immutable+active; 2 SST+active; the same after reopen; 3 SSTs with the flushed log files retired; 2 SSTs log-retired + active); on each: full scan, Seek to 7 targets (keys, gaps, ends) followed by iteration, SeekToLast, every range [lo,hi) over those bounds with SeekToFirst/Seek/SeekToLast, prefix and suffix filters, the same inside a read-write transaction with 5 single-operation overlays and inside a read-only transaction. Oracle: sorted map model minus deleted keys, consumer skips IsTombstone entries. Non-trivial = arrangements with >=2 non-empty layers. Concurrent scans: a full scan over keys spread over an SSTable, an immutable and the active table against a writer of other keys, a transactional writer, an explicit flush, writer+flush and a compaction, and a range scan whose start bound is a key the (transactional) writer inserts meanwhile: all interleavings up to the deviation bound (2 for the writer scenarios, 1 for the maintenance scenarios; thorough +1); the scan must be strictly ascending, duplicate-free, contain every pre-existing untouched key with its value, no deleted key and nothing nobody wrote.",
		Assumptions: []string{"layer boundaries are forced through an export hook that calls the engine's own scheduleFlush", "log retirement is simulated by deleting every log file but the newest after all data was flushed"},
		Units: func(tier string) []string {
			var us []string
			for _, sh := range c05Shapes {
				if tier == "thorough" {
					for s := 0; s < 8; s++ {
						us = append(us, fmt.Sprintf("arr/%s/3x3/%d/8", sh, s))
					}
				} else {
					us = append(us, fmt.Sprintf("arr/%s/2x3/0/1", sh), fmt.Sprintf("arr/%s/3x2/0/1", sh))
				}
			}
			us = append(us, "phys/17/0", "phys/33/0", "phys/40/0", "phys/12/20480")
			if tier == "thorough" {
				us = append(us, "phys/120/0", "phys/40/20480")
			}
			us = append(us, c05SchedUnits(tier)...)
			return us
		},
		Run: func(unit string, env *fw.Env) *fw.Result {
			if strings.HasPrefix(unit, "arr/") {
				return c05ArrUnit(unit, env)
			}
			if strings.HasPrefix(unit, "phys/") {
				return c05PhysUnit(unit, env)
			}
			return c05SchedUnit(unit, env)
		},
		Replay: func(v *fw.Violation) string {
			if w, ok := v.Witness.(map[string]any); ok && w["kind"] == "schedule" {
				return replaySched(func(n string) *explore.Scenario {
					for _, sc := range c05Scenarios() {
						if sc.Name == n {
							return sc
						}
					}
					return nil
				}, v)
			}
			b, _ := json.Marshal(v.Witness)
			return "re-run: kvcheck one C05 quick " + v.Unit + "\nwitness: " + string(b)
		},
		BudgetQuick: 150, BudgetThorough: 900,
	})
}

// physical shapes: many keys per block / several blocks per table, read purely from SSTables
func c05PhysUnit(unit string, env *fw.Env) *fw.Result {
	res := fw.NewResult()
	var n, big int
	fmt.Sscanf(unit, "phys/%d/%d", &n, &big)
	dir := filepath.Join(fw.Scratch("c05p"), "db")
	var r *EngRun
	var problem string
	val := func(i, gen int) string {
		if big > 0 {
			return fmt.Sprintf("%d.%d.", i, gen) + strings.Repeat(string(rune('A'+i%26)), big)
		}
		return fmt.Sprintf("v%d.%d", i, gen)
	}
	s := vsched.Run(vsched.Config{Bound: 0, NoEnv: true, MaxSteps: 30_000_000}, func() {
		var err error
		r, err = newEngRun(dir, engCfgs["big"])
		if err != nil {
			problem = "open-failed\n" + err.Error()
			return
		}
		sm := r.Eng.VerifStorage().(*storage.Manager)
		for i := 0; i < n; i++ {
			r.Apply(EngOp{Kind: "put", Key: fmt.Sprintf("key%03d", i), Val: val(i, 1)})
		}
		sm.VerifSwitch()
		vsched.Quiesce()
		for i := 0; i < n; i++ {
			if i%5 == 2 {
				r.Apply(EngOp{Kind: "del", Key: fmt.Sprintf("key%03d", i)})
			} else if i%7 == 3 {
				r.Apply(EngOp{Kind: "put", Key: fmt.Sprintf("key%03d", i), Val: val(i, 2)})
			}
		}
		sm.VerifSwitch()
		vsched.Quiesce()
		r.Eng.Close()
		retireLogs(dir)
		e, err := engine.NewEngineFacade(dir)
		if err != nil {
			problem = "reopen-failed\n" + err.Error()
			return
		}
		r.Eng = e
	})
	defer os.RemoveAll(dir)
	if r != nil {
		defer r.Close()
	}
	res.Evaluations++
	res.States++
	res.Transitions++
	res.Traces++
	if s.Out != vsched.OK {
		problem = s.Out.String() + "\n" + s.Detail
	}
	if problem == "" {
		var ever []string
		var targets [][]byte
		for i := 0; i < n; i++ {
			k := fmt.Sprintf("key%03d", i)
			ever = append(ever, k)
			targets = append(targets, []byte(k), []byte(k+"5"))
		}
		targets = append(targets, []byte("a"), []byte("z"))
		problem = func() (p string) {
			defer func() {
				if x := recover(); x != nil {
					p = fmt.Sprintf("panic\n%v", x)
				}
			}()
			if p := r.CheckGets(ever); p != "" {
				return p
			}
			full := func() iterator.Iterator { it, _ := r.Eng.GetIterator(); return it }
			ranged := func(lo, hi []byte) iterator.Iterator { it, _ := r.Eng.GetRangeIterator(lo, hi); return it }
			return scanSuite(full, ranged, r.Model, ever, targets)
		}()
		res.Evaluations += len(targets) * 3
		res.Nontrivial += len(targets)
	}
	if problem != "" {
		res.Violate(fw.FP("C05", unit, firstLine(problem)), fmt.Sprintf("[%s] %s", unit, clipS(problem, 600)), unit, map[string]any{"kind": "phys", "unit": unit, "problem": clipS(problem, 2000)})
	}
	res.Sample(map[string]any{"physical_shape": unit, "keys": n, "value_bytes": big})
	return res
}

func clipS(s string, n int) string {
	if len(s) > n {
		return s[:n] + "…"
	}
	return s
}

// concurrent scans: a running scan against writers, a flush and a compaction that touch other keys
type c05ScanObs struct {
	Keys  []string
	Vals  []string
	Err   string
	Setup string // a set-up write failed: nothing to check in this execution
}

func c05Scenarios() []*explore.Scenario {
	mkLo := func(name string, cfg string, others []string, lo string) *explore.Scenario {
		return &explore.Scenario{Name: name, MaxSteps: 3_000_000,
			Body: func() any {
				dir := filepath.Join(fw.ProcDir("c05s"), "db")
				obs := &c05ScanObs{}
				r, err := newEngRun(dir, engCfgs[cfg])
				if err != nil {
					obs.Err = "open: " + err.Error()
					return obs
				}
				defer r.Close()
				sm := r.Eng.VerifStorage().(*storage.Manager)
				// pre-existing keys spread over an SSTable, an immutable table and the active table
				// (the set-up runs under the explored scheduler too: its writes race the background flush, and a
				// write that loses against a log rotation may fail - then the premise "existed before" is void)
				setup := func(err error) {
					if err != nil && obs.Setup == "" {
						obs.Setup = err.Error()
					}
				}
				setup(r.Eng.Put([]byte("k2"), []byte("v2")))
				sm.VerifSwitch()
				vsched.Quiesce()
				setup(r.Eng.Put([]byte("k4"), []byte("v4")))
				setup(r.Eng.Put([]byte("k0"), []byte("gone")))
				setup(r.Eng.Delete([]byte("k0")))
				sm.VerifSwitch()
				setup(r.Eng.Put([]byte("k6"), []byte("v6")))
				if obs.Setup != "" {
					return obs
				}
				var ts []*vsched.Thread
				ts = append(ts, vsched.GoNamed("SCAN", func() {
					it, err := r.Eng.GetIterator()
					if lo != "" {
						// a range scan positions every layer with Seek(lo): lo is a key a writer inserts meanwhile
						it, err = r.Eng.GetRangeIterator([]byte(lo), nil)
					}
					if err != nil {
						obs.Err = "iterator: " + err.Error()
						return
					}
					n := 0
					for it.SeekToFirst(); it.Valid() && n < 200; it.Next() {
						n++
						if !it.IsTombstone() {
							obs.Keys = append(obs.Keys, string(it.Key()))
							obs.Vals = append(obs.Vals, string(it.Value()))
						}
					}
				}))
				for i, o := range others {
					i, o := i, o
					ts = append(ts, vsched.GoNamed(fmt.Sprintf("O%d", i+1), func() {
						switch o {
						case "writer":
							r.Eng.Put([]byte("k1"), []byte("new1"))
							r.Eng.Put([]byte("k5"), []byte("new5"))
							r.Eng.Delete([]byte("k3"))
						case "flush":
							r.Eng.FlushImMemTables()
						case "compact":
							r.Eng.TriggerCompaction()
						case "txwriter":
							if tx, err := r.Eng.BeginTransaction(false); err == nil {
								tx.Put([]byte("k1"), []byte("new1"))
								tx.Put([]byte("k7"), []byte("new7"))
								tx.Commit()
							}
						}
					}))
				}
				for _, t := range ts {
					vsched.Join(t)
				}
				return obs
			},
			Check: func(s *vsched.Sched, o any) (string, string) {
				ob := o.(*c05ScanObs)
				key := strings.Join(ob.Keys, ",")
				if ob.Setup != "" {
					return "set-up write failed: " + ob.Setup, ""
				}
				if ob.Err != "" {
					return key, "operation-failed\n" + ob.Err
				}
				for i := 1; i < len(ob.Keys); i++ {
					if ob.Keys[i] <= ob.Keys[i-1] {
						return key, fmt.Sprintf("concurrent-scan-order\na scan running next to writers is not strictly ascending / duplicate-free: %v", ob.Keys)
					}
				}
				got := map[string]string{}
				for i, k := range ob.Keys {
					got[k] = ob.Vals[i]
				}
				for k, v := range map[string]string{"k2": "v2", "k4": "v4", "k6": "v6"} {
					if k < lo {
						if _, ok := got[k]; ok {
							return key, fmt.Sprintf("concurrent-scan-out-of-bounds\nthe scan from %q shows %s (scan: %v)", lo, k, ob.Keys)
						}
						continue
					}
					if got[k] != v {
						return key, fmt.Sprintf("concurrent-scan-missing\nkey %s existed before the scan started and is not written during it, the scan shows %q (scan: %v)", k, got[k], ob.Keys)
					}
				}
				if _, ok := got["k0"]; ok {
					return key, fmt.Sprintf("concurrent-scan-resurrected\nkey k0 was deleted before the scan started, the scan shows it (scan: %v)", ob.Keys)
				}
				for k, v := range got {
					want := map[string]string{"k1": "new1", "k5": "new5", "k7": "new7", "k2": "v2", "k4": "v4", "k6": "v6"}[k]
					if want == "" || v != want {
						return key, fmt.Sprintf("concurrent-scan-fabricated\nthe scan shows %s=%q which no client wrote", k, v)
					}
				}
				return key, ""
			}}
	}
	mk := func(name string, cfg string, others []string) *explore.Scenario { return mkLo(name, cfg, others, "") }
	return []*explore.Scenario{
		mkLo("rangescan-vs-writer", "big", []string{"writer"}, "k5"),
		mkLo("rangescan-vs-txwriter", "big", []string{"txwriter"}, "k1"),
		mk("scan-vs-writer", "big", []string{"writer"}),
		mk("scan-vs-flush", "big", []string{"flush"}),
		mk("scan-vs-writer-flush", "big", []string{"writer", "flush"}),
		mk("scan-vs-compact", "tiny2", []string{"compact"}),
		mk("scan-vs-txwriter", "big", []string{"txwriter"}),
	}
}

func c05SchedUnits(tier string) []string {
	b := 2
	if tier == "thorough" {
		b = 3
	}
	var us []string
	for _, sc := range c05Scenarios() {
		bb, n := b-1, 4
		if sc.Name == "scan-vs-writer" || sc.Name == "scan-vs-txwriter" || strings.HasPrefix(sc.Name, "rangescan-") {
			bb = b
		}
		us = append(us, shardUnits(sc.Name, bb, n)...)
	}
	return us
}

func c05SchedUnit(unit string, env *fw.Env) *fw.Result {
	sp := parseSched(unit)
	for _, sc := range c05Scenarios() {
		if sc.Name == sp.Name {
			return runSched("C05", sc, sp, env, 2)
		}
	}
	r := fw.NewResult()
	r.HarnessErr = "unknown unit " + unit
	return r
}
