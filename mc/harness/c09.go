package harness

import (
	"bytes"
	"encoding/json"
	"fmt"
	"os"
	"path/filepath"
	"strings"

	"github.com/KevoDB/kevo/pkg/config"
	"github.com/KevoDB/kevo/pkg/wal"
	"verif/mc/fw"
)

// C09 — the write-ahead log replays exactly what was appended, in order.

type walEnt struct {
	Type uint8
	Key  []byte
	Val  []byte
	Seq  uint64
}

func (e walEnt) String() string {
	t := "put"
	if e.Type == wal.OpTypeDelete {
		t = "del"
	}
	return fmt.Sprintf("%s(%s[%d],%dB)@%d", t, clip(e.Key), len(e.Key), len(e.Val), e.Seq)
}

func sameWal(a, b walEnt) bool {
	if a.Type != b.Type || a.Seq != b.Seq || !bytes.Equal(a.Key, b.Key) {
		return false
	}
	if a.Type == wal.OpTypeDelete {
		return true
	}
	return bytes.Equal(a.Val, b.Val)
}

// shapes of single operations (key length, value length, delete?)
type walShape struct {
	Name string
	K, V int
	Del  bool
}

func walShapes(thorough bool) []walShape {
	const M = wal.MaxRecordSize // 32768; entry size = 17 + K + V for puts, 13 + K for deletes
	s := []walShape{
		{"small", 3, 5, false},
		{"del", 3, 0, true},
		{"emptyval", 2, 0, false},
		{"rec-1", 8, M - 17 - 8 - 1, false},
		{"rec=", 8, M - 17 - 8, false},
		{"rec+1", 8, M - 17 - 8 + 1, false},
		{"2rec+1", 8, 2*M + 1, false},
		{"bigkey", M + 10, 7, false},
		{"bigkey-del", M + 10, 0, true},
		{"key=first-frag", M - 13, 4, false},
		// a fragmented entry's first fragment holds the header and key only; what follows (rest of the key,
		// value length, value) is cut into M-byte fragments: exact multiples of M behind the first fragment
		{"rem=M", 8, M - 4, false},
		{"rem=2M", 8, 2*M - 4, false},
		{"del-rem=M", M - 13 + M, 0, true},
		{"del-rec=", M - 13, 0, true}, // a delete that fills one record exactly (13 + key)
	}
	if thorough {
		s = append(s,
			walShape{"2rec=", 8, 2*M - 17 - 8 + M, false},
			walShape{"key=first-frag+1", M - 12, 4, false},
			walShape{"del-rec-3", M - 16, 0, true}, // would not fit if a value length were counted for deletes
			walShape{"del-rec+1", M - 12, 0, true},
			walShape{"rem=M-1", 8, M - 5, false},
			walShape{"rem=M+1", 8, M - 3, false},
			walShape{"rem=2M+1", 8, 2*M - 3, false},
		)
	}
	return s
}

func mkBytes(n int, seed int) []byte {
	b := make([]byte, n)
	for i := range b {
		b[i] = byte('a' + (i*7+seed*13)%26)
	}
	return b
}

// program symbols: "a:<shape>", "b:<batchname>", "rotate", "reopen"
type walBatch struct {
	Name string
	Ops  []walShape
}

func walBatches(thorough bool) []walBatch {
	sm := walShape{"small", 3, 5, false}
	dl := walShape{"del", 3, 0, true}
	bs := []walBatch{
		{"b1", []walShape{sm}},
		{"b3", []walShape{sm, dl, {"e", 2, 0, false}}},
		// totals around the 64 KiB buffer: each record = 7 + 17 + K + V
		{"b64k-1", []walShape{{"x", 4, 30000, false}, {"y", 4, 30000, false}, {"z", 4, 65536 - 1 - 2*(7+17+4+30000) - (7 + 17 + 4), false}}},
		{"b64k", []walShape{{"x", 4, 30000, false}, {"y", 4, 30000, false}, {"z", 4, 65536 - 2*(7+17+4+30000) - (7 + 17 + 4), false}}},
		{"b64k+1", []walShape{{"x", 4, 30000, false}, {"y", 4, 30000, false}, {"z", 4, 65536 + 1 - 2*(7+17+4+30000) - (7 + 17 + 4), false}}},
	}
	// a batch holding an entry larger than one record: either it is appended completely or it fails without a trace
	bs = append(bs, walBatch{"b-oversize", []walShape{sm, {"big", 4, 40000, false}, dl}})
	// the same on the exact boundary: an entry of 17 + K + V bytes fills one record exactly (accepted) or is one byte
	// too large (the whole batch is rejected, nothing of it may reach the log); the large entry is not the first one
	const M = wal.MaxRecordSize
	bs = append(bs, walBatch{"b-rec=", []walShape{sm, {"edge", 4, M - 17 - 4, false}, dl}})
	bs = append(bs, walBatch{"b-oversize-by-1", []walShape{sm, {"edge", 4, M - 17 - 4 + 1, false}, dl}})
	if thorough {
		bs = append(bs, walBatch{"b-oversize-del-by-1", []walShape{sm, dl, {"edgekey", M - 13 + 1, 0, true}}})
		bs = append(bs, walBatch{"b-oversize-at-M", []walShape{sm, {"edge", 4, M - 4, false}, dl}})
	}
	if thorough {
		bs = append(bs, walBatch{"b3x30k", []walShape{{"x", 4, 30720, false}, {"y", 4, 30720, false}, {"z", 4, 30720, false}}})
	}
	return bs
}

type walProg []string

func walCfg(dir string, mode config.SyncMode) *config.Config {
	cfg := config.NewDefaultConfig(dir)
	cfg.WALSyncMode = mode
	return cfg
}

// runWalProg executes the program against the real WAL and returns the expected entries.
func runWalProg(dir string, prog walProg, thorough bool, mode config.SyncMode) (exp []walEnt, w *wal.WAL, err error) {
	cfg := walCfg(dir, mode)
	w, err = wal.NewWAL(cfg, cfg.WALDir)
	if err != nil {
		return nil, nil, err
	}
	shapes := map[string]walShape{}
	for _, s := range walShapes(true) {
		shapes[s.Name] = s
	}
	batches := map[string]walBatch{}
	for _, b := range walBatches(true) {
		batches[b.Name] = b
	}
	n := 0
	mk := func(s walShape) walEnt {
		n++
		e := walEnt{Type: wal.OpTypePut, Key: mkBytes(s.K, n), Val: mkBytes(s.V, n+100)}
		if s.Del {
			e.Type, e.Val = wal.OpTypeDelete, nil
		}
		return e
	}
	for _, sym := range prog {
		switch {
		case strings.HasPrefix(sym, "a:"):
			e := mk(shapes[sym[2:]])
			seq, err := w.Append(e.Type, e.Key, e.Val)
			if err != nil {
				return exp, w, fmt.Errorf("append %s: %w", sym, err)
			}
			e.Seq = seq
			exp = append(exp, e)
		case strings.HasPrefix(sym, "b:"):
			var ents []*wal.Entry
			var es []walEnt
			for _, s := range batches[sym[2:]].Ops {
				e := mk(s)
				es = append(es, e)
				ents = append(ents, &wal.Entry{Type: e.Type, Key: e.Key, Value: e.Val})
			}
			seq, err := w.AppendBatch(ents)
			if err != nil {
				if strings.HasPrefix(sym, "b:b-oversize") {
					continue // a rejected batch is legal; it must leave no trace (checked by the replay comparison)
				}
				return exp, w, fmt.Errorf("batch %s: %w", sym, err)
			}
			for _, e := range es {
				e.Seq = seq
				exp = append(exp, e)
			}
		case sym == "rotate":
			next := w.GetNextSequence()
			if err := w.Close(); err != nil {
				return exp, w, err
			}
			w, err = wal.NewWAL(cfg, cfg.WALDir)
			if err != nil {
				return exp, w, err
			}
			w.UpdateNextSequence(next)
		case sym == "reopen":
			next := w.GetNextSequence()
			if err := w.Close(); err != nil {
				return exp, w, err
			}
			w, err = wal.ReuseWAL(cfg, cfg.WALDir, next)
			if err != nil || w == nil {
				return exp, w, fmt.Errorf("reuse: %v", err)
			}
		}
	}
	return exp, w, nil
}

func replayDir(dir string) ([]walEnt, error) {
	var got []walEnt
	_, err := wal.ReplayWALDir(dir, func(e *wal.Entry) error {
		got = append(got, walEnt{Type: e.Type, Key: append([]byte{}, e.Key...), Val: append([]byte{}, e.Value...), Seq: e.SequenceNumber})
		return nil
	})
	return got, err
}

func c09CheckProg(prog walProg, mode config.SyncMode, res *fw.Result, unit string, thorough bool) {
	dir := fw.Scratch("c09")
	defer os.RemoveAll(dir)
	viol := func(clause, detail string) {
		res.Violate(fw.FP("C09", clause, strings.Join(prog, " ")), fmt.Sprintf("wal [%s] program %v: %s", clause, prog, detail), unit, map[string]any{"kind": "wal-prog", "prog": prog, "clause": clause, "sync": int(mode)})
	}
	exp, w, err := runWalProg(dir, prog, thorough, mode)
	res.Evaluations++
	res.Transitions += len(prog)
	if err != nil {
		viol("append-failed", err.Error())
		return
	}
	// reading from a given sequence number on the live log
	maxSeq := uint64(0)
	for _, e := range exp {
		if e.Seq > maxSeq {
			maxSeq = e.Seq
		}
	}
	for s := uint64(0); s <= maxSeq+2; s++ {
		got, err := w.GetEntriesFrom(s)
		if err != nil {
			viol("entries-from-error", fmt.Sprintf("GetEntriesFrom(%d): %v", s, err))
			break
		}
		var want []walEnt
		for _, e := range exp {
			if e.Seq >= s {
				want = append(want, e)
			}
		}
		if d := diffWal(want, toWalEnts(got)); d != "" {
			viol("entries-from", fmt.Sprintf("GetEntriesFrom(%d): %s", s, d))
			break
		}
	}
	if err := w.Close(); err != nil {
		viol("close-failed", err.Error())
		return
	}
	got, err := replayDir(walCfg(dir, mode).WALDir)
	if err != nil {
		viol("replay-error", err.Error())
		return
	}
	if d := diffWal(exp, got); d != "" {
		viol("replay-differs", d)
	}
	if len(prog) >= 2 {
		res.Nontrivial++
	}
}

func toWalEnts(es []*wal.Entry) []walEnt {
	var out []walEnt
	for _, e := range es {
		out = append(out, walEnt{Type: e.Type, Key: e.Key, Val: e.Value, Seq: e.SequenceNumber})
	}
	return out
}

func diffWal(want, got []walEnt) string {
	for i := 0; i < len(want) || i < len(got); i++ {
		if i >= len(got) {
			return fmt.Sprintf("entry %d missing: want %v (got %d of %d entries)", i, want[i], len(got), len(want))
		}
		if i >= len(want) {
			return fmt.Sprintf("extra entry %d: %v (appended only %d)", i, got[i], len(want))
		}
		if !sameWal(want[i], got[i]) {
			return fmt.Sprintf("entry %d differs: want %v got %v", i, want[i], got[i])
		}
	}
	return ""
}

func c09Alphabet(thorough bool) []string {
	var a []string
	for _, s := range walShapes(thorough) {
		a = append(a, "a:"+s.Name)
	}
	for _, b := range walBatches(thorough) {
		a = append(a, "b:"+b.Name)
	}
	a = append(a, "rotate", "reopen")
	return a
}

func c09Unit(unit string, env *fw.Env) *fw.Result {
	res := fw.NewResult()
	alpha := c09Alphabet(env.Thorough)
	depth, maxCtl := 3, 2
	if env.Thorough {
		depth, maxCtl = 4, 2
	}
	var first int
	var mode int
	if strings.HasPrefix(unit, "ctl/") {
		// every sequence of <=6 (7) symbols over {small append, small batch, rotate, reopen}: empty files in the middle,
		// rotations in a row, reopen of an empty file, ...
		fmt.Sscanf(unit, "ctl/%d", &mode)
		small := []string{"a:small", "b:b3", "rotate", "reopen"}
		d := 6
		if env.Thorough {
			d = 7
		}
		var rec func(prog walProg)
		rec = func(prog walProg) {
			if env.Expired() {
				res.Exhaustive = false
				return
			}
			if len(prog) > 0 {
				c09CheckProg(prog, config.SyncMode(mode), res, unit, env.Thorough)
				res.States++
			}
			if len(prog) == d {
				return
			}
			for _, s := range small {
				rec(append(prog[:len(prog):len(prog)], s))
			}
		}
		rec(nil)
		res.Traces = res.Evaluations
		return res
	}
	fmt.Sscanf(unit, "prog/%d/%d", &first, &mode)
	var rec func(prog walProg, ctl int)
	rec = func(prog walProg, ctl int) {
		if env.Expired() {
			res.Exhaustive = false
			return
		}
		c09CheckProg(prog, config.SyncMode(mode), res, unit, env.Thorough)
		res.States++
		if len(res.Samples) < 2 && len(prog) == depth {
			res.Sample(strings.Join(prog, " "))
		}
		if len(prog) == depth {
			return
		}
		for _, s := range alpha {
			c := ctl
			if s == "rotate" || s == "reopen" {
				if c >= maxCtl {
					continue
				}
				c++
			}
			// in the thorough tier keep depth-4 programs to small shapes after position 2 to stay within budget
			rec(append(prog[:len(prog):len(prog)], s), c)
		}
	}
	ctl := 0
	if alpha[first] == "rotate" || alpha[first] == "reopen" {
		ctl = 1
	}
	rec(walProg{alpha[first]}, ctl)
	res.Traces = res.Evaluations
	return res
}

func init() {
	fw.Register(&fw.Check{
		ID:    "C09",
		Level: "model_checking",
		Rule: "all programs up to depth 3 (4 thorough) over the alphabet {append of 14 (21) key/value shapes on the record-format boundaries (payload 32767/32768/32769, 2 fragments+1, data behind the first fragment exactly 1x / 2x the fragment size for puts and a delete, key longer than the first fragment, fragmented delete, empty value), 7 (10) batches incl. totals 64KiB-1/64KiB/64KiB+1, an entry that fills a record exactly and entries too large by one byte / by far behind a small first entry (rejected: nothing of the batch may be in the log), rotate, reopen} with <=2 rotate/reopen, plus every sequence of <=6 (7) symbols over {small append, 3-entry batch, rotate, reopen} (rotations in a row, empty files in the middle), under sync modes immediate and none; oracle: ReplayWALDir == appended list (type,key,value,seq) and GetEntriesFrom(s) for every s in [0,max+2]; non-trivial = programs with >=2 symbols",
		Assumptions: []string{"sequence hand-over at rotation is done by the harness as the engine is supposed to do it (UpdateNextSequence)", "file names come from the real clock; two files created in the same nanosecond are not modelled"},
		Units: func(tier string) []string {
			var us []string
			n := len(c09Alphabet(tier == "thorough"))
			for i := 0; i < n; i++ {
				us = append(us, fmt.Sprintf("prog/%d/%d", i, int(config.SyncImmediate)))
				us = append(us, fmt.Sprintf("prog/%d/%d", i, int(config.SyncNone)))
			}
			us = append(us, fmt.Sprintf("ctl/%d", int(config.SyncImmediate)), fmt.Sprintf("ctl/%d", int(config.SyncNone)))
			return us
		},
		Run:    c09Unit,
		Replay: func(v *fw.Violation) string { b, _ := json.Marshal(v.Witness); return "re-run: kvcheck one C09 quick " + v.Unit + "\nwitness: " + string(b) },
		BudgetQuick: 100, BudgetThorough: 800,
	})
	_ = filepath.Join
}
