package harness

import (
	"fmt"
	"path/filepath"
	"reflect"
	"sort"
	"strings"
	"sync"
	"time"

	"github.com/KevoDB/kevo/pkg/engine"
	"github.com/KevoDB/kevo/pkg/engine/interfaces"
	"github.com/KevoDB/kevo/pkg/engine/storage"
	"github.com/KevoDB/kevo/pkg/stats"
	"github.com/KevoDB/kevo/pkg/wal"
	"github.com/KevoDB/kevo/pkg/zzverif/vsched"
	"verif/mc/explore"
	"verif/mc/fw"
)

// C07 — concurrent use never races, crashes or hangs the process.

type c07Env struct {
	eng *engine.EngineFacade
	tx  interfaces.Transaction // a shared read-write transaction (only in tx scenarios)
	col stats.Collector
}

type c07Body struct {
	Name string
	Run  func(x *c07Env)
	Tx   bool // operates on the shared transaction
}

func iterAll(it interface {
	SeekToFirst()
	Valid() bool
	Next() bool
}) {
	n := 0
	for it.SeekToFirst(); it.Valid() && n < 100; it.Next() {
		n++
	}
}

func c07Bodies() []c07Body {
	k := func(s string) []byte { return []byte(s) }
	return []c07Body{
		{Name: "Engine.Put", Run: func(x *c07Env) { x.eng.Put(k("a"), k("1")) }},
		{Name: "Engine.PutInternal", Run: func(x *c07Env) { x.eng.PutInternal(k("b"), k("2")) }},
		{Name: "Engine.Get", Run: func(x *c07Env) { x.eng.Get(k("a")) }},
		{Name: "Engine.Delete", Run: func(x *c07Env) { x.eng.Delete(k("a")) }},
		{Name: "Engine.DeleteInternal", Run: func(x *c07Env) { x.eng.DeleteInternal(k("b")) }},
		{Name: "Engine.IsDeleted", Run: func(x *c07Env) { x.eng.IsDeleted(k("a")) }},
		{Name: "Engine.GetIterator", Run: func(x *c07Env) {
			if it, err := x.eng.GetIterator(); err == nil {
				iterAll(it)
			}
		}},
		{Name: "Engine.GetRangeIterator", Run: func(x *c07Env) {
			if it, err := x.eng.GetRangeIterator(k("a"), k("c")); err == nil {
				iterAll(it)
				it.SeekToLast()
			}
			// the other argument shape: no bounds at all
			if it, err := x.eng.GetRangeIterator(nil, nil); err == nil {
				iterAll(it)
			}
		}},
		{Name: "Engine.ApplyBatch", Run: func(x *c07Env) {
			x.eng.ApplyBatch([]*wal.Entry{{Type: wal.OpTypePut, Key: k("b"), Value: k("3")}, {Type: wal.OpTypeDelete, Key: k("a")}})
		}},
		{Name: "Engine.ApplyBatchInternal", Run: func(x *c07Env) {
			x.eng.ApplyBatchInternal([]*wal.Entry{{Type: wal.OpTypePut, Key: k("a"), Value: k("4")}})
		}},
		{Name: "Engine.BeginTransaction", Run: func(x *c07Env) {
			if tx, err := x.eng.BeginTransaction(false); err == nil {
				tx.Put(k("a"), k("t"))
				tx.Get(k("b"))
				tx.Commit()
			}
		}},
		{Name: "Engine.BeginTransaction(ro)", Run: func(x *c07Env) {
			if tx, err := x.eng.BeginTransaction(true); err == nil {
				tx.Get(k("a"))
				iterAll(tx.NewIterator())
				tx.Rollback()
			}
		}},
		{Name: "Engine.FlushImMemTables", Run: func(x *c07Env) { x.eng.FlushImMemTables() }},
		{Name: "Engine.TriggerCompaction", Run: func(x *c07Env) { x.eng.TriggerCompaction() }},
		{Name: "Engine.CompactRange", Run: func(x *c07Env) { x.eng.CompactRange(nil, nil) }},
		{Name: "Engine.GetStats", Run: func(x *c07Env) { x.eng.GetStats() }},
		{Name: "Engine.GetCompactionStats", Run: func(x *c07Env) { x.eng.GetCompactionStats() }},
		{Name: "Engine.IsReadOnly", Run: func(x *c07Env) { x.eng.IsReadOnly(); x.eng.GetWAL(); x.eng.GetTransactionManager(); x.eng.GetRWLock() }},
		{Name: "Engine.SetReadOnly", Run: func(x *c07Env) { x.eng.SetReadOnly(true); x.eng.SetReadOnly(false) }},
		{Name: "Compaction.TrackTombstone", Run: func(x *c07Env) {
			x.eng.VerifCompaction().TrackTombstone(k("a"))
			x.eng.VerifCompaction().ForcePreserveTombstone(k("b"))
			x.eng.VerifCompaction().GetCompactionStats()
		}},
		{Name: "Stats.Track", Run: func(x *c07Env) {
			x.col.TrackOperation(stats.OpPut)
			x.col.TrackOperationWithLatency(stats.OpGet, 10)
			x.col.TrackError("e")
			x.col.TrackBytes(true, 1)
			x.col.TrackMemTableSize(1)
			x.col.TrackFlush()
			x.col.TrackCompaction()
			x.col.FinishRecovery(x.col.StartRecovery(), 1, 1, 0)
		}},
		{Name: "Stats.GetStats", Run: func(x *c07Env) { x.col.GetStats(); x.col.GetStatsFiltered("op") }},
		// one transaction shared by two goroutines
		{Name: "Tx.Put", Tx: true, Run: func(x *c07Env) { x.tx.Put(k("a"), k("x")) }},
		{Name: "Tx.Get", Tx: true, Run: func(x *c07Env) { x.tx.Get(k("a")); x.tx.IsReadOnly() }},
		{Name: "Tx.Delete", Tx: true, Run: func(x *c07Env) { x.tx.Delete(k("b")) }},
		{Name: "Tx.NewIterator", Tx: true, Run: func(x *c07Env) { iterAll(x.tx.NewIterator()) }},
		{Name: "Tx.NewRangeIterator", Tx: true, Run: func(x *c07Env) {
			iterAll(x.tx.NewRangeIterator(k("a"), k("c")))
			iterAll(x.tx.NewRangeIterator(nil, nil))
		}},
		{Name: "Tx.Commit", Tx: true, Run: func(x *c07Env) { x.tx.Commit() }},
		{Name: "Tx.Rollback", Tx: true, Run: func(x *c07Env) { x.tx.Rollback() }},
	}
}

// entry points that have no body, with the reason
var c07Excluded = map[string]string{
	"Engine.Close":                      "Close concurrent with other calls is out of scope (statement)",
	"Engine.IncrementTxCompleted":       "covered through commit (Engine.BeginTransaction)",
	"Engine.IncrementTxAborted":         "covered through rollback",
	"Engine.GetRWLock":                  "covered in Engine.IsReadOnly body",
	"Engine.GetWAL":                     "covered in Engine.IsReadOnly body",
	"Engine.GetTransactionManager":      "covered in Engine.IsReadOnly body",
	"Engine.VerifStorage":               "verification export",
	"Engine.VerifCompaction":            "verification export",
	"Compaction.Start":                  "lifecycle, runs inside open",
	"Compaction.Stop":                   "lifecycle, runs inside Close",
	"Compaction.TriggerCompaction":      "covered through Engine.TriggerCompaction",
	"Compaction.CompactRange":           "covered through Engine.CompactRange",
	"Compaction.ForcePreserveTombstone": "covered in Compaction.TrackTombstone body",
	"Compaction.GetCompactionStats":     "covered in Compaction.TrackTombstone body",
	"Tx.IsReadOnly":                     "covered in Tx.Get body",
	"Stats.TrackOperation":              "covered in Stats.Track body", "Stats.TrackOperationWithLatency": "covered in Stats.Track body", "Stats.TrackError": "covered in Stats.Track body",
	"Stats.TrackBytes": "covered in Stats.Track body", "Stats.TrackMemTableSize": "covered in Stats.Track body", "Stats.TrackFlush": "covered in Stats.Track body",
	"Stats.TrackCompaction": "covered in Stats.Track body", "Stats.StartRecovery": "covered in Stats.Track body", "Stats.FinishRecovery": "covered in Stats.Track body",
	"Stats.GetStatsFiltered": "covered in Stats.GetStats body",
}

// c07Uncovered lists public entry points (from the method sets) that have neither a body nor an exclusion.
func c07Uncovered() []string {
	have := map[string]bool{}
	for _, b := range c07Bodies() {
		n := b.Name
		if i := strings.Index(n, "("); i > 0 {
			n = n[:i]
		}
		have[n] = true
	}
	var missing []string
	check := func(prefix string, t reflect.Type) {
		for i := 0; i < t.NumMethod(); i++ {
			n := prefix + "." + t.Method(i).Name
			if strings.HasPrefix(t.Method(i).Name, "Verif") {
				continue // methods added by the verification export files (mc/export), not part of kevo
			}
			if !have[n] && c07Excluded[n] == "" {
				missing = append(missing, n)
			}
		}
	}
	check("Engine", reflect.TypeOf(&engine.EngineFacade{}))
	check("Tx", reflect.TypeOf((*interfaces.Transaction)(nil)).Elem())
	check("Compaction", reflect.TypeOf((*interfaces.CompactionManager)(nil)).Elem())
	check("Stats", reflect.TypeOf((*stats.Collector)(nil)).Elem())
	sort.Strings(missing)
	return missing
}

// c07Setup opens an engine with data in every layer: 2 level-0 files, an immutable table waiting for flush, an active table.
func c07Setup(dir string, controlled bool, post bool) (*c07Env, func(), error) {
	cfg := EngCfg{"c07", 32 << 20, 2, 0, 0}
	r, err := newEngRun(dir, cfg)
	if err != nil {
		return nil, nil, err
	}
	sm := r.Eng.VerifStorage().(*storage.Manager)
	quiesce := func() {
		if controlled {
			vsched.Quiesce()
		} else {
			// free running: the background flush thread picks the signal up by itself
			for i := 0; i < 200 && len(sm.GetSSTables()) < 1; i++ {
				time.Sleep(time.Millisecond)
			}
		}
	}
	r.Eng.Put([]byte("a"), []byte("a0"))
	r.Eng.Put([]byte("b"), []byte("b0"))
	sm.VerifSwitch()
	quiesce()
	r.Eng.Delete([]byte("b"))
	r.Eng.Put([]byte("c"), []byte("c0"))
	sm.VerifSwitch()
	if controlled {
		vsched.Quiesce()
	} else {
		for i := 0; i < 200 && len(sm.GetSSTables()) < 2; i++ {
			time.Sleep(time.Millisecond)
		}
	}
	if post {
		// history: one completed compaction cycle (its result is recorded) before the calls start
		r.Eng.TriggerCompaction()
		if controlled {
			vsched.Quiesce()
		}
	}
	r.Eng.Put([]byte("a"), []byte("a1"))
	sm.VerifSwitch() // leaves an immutable table and a pending flush signal: the background thread is live
	r.Eng.Put([]byte("b"), []byte("b1"))
	return &c07Env{eng: r.Eng, col: stats.NewAtomicCollector()}, func() { r.Close() }, nil
}

type c07Group struct {
	Name   string
	Bodies []c07Body
	Post   bool // the engine has completed a compaction cycle before the calls start
}

func c07Groups() []c07Group {
	bs := c07Bodies()
	var eng, tx []c07Body
	for _, b := range bs {
		if b.Tx {
			tx = append(tx, b)
		} else {
			eng = append(eng, b)
		}
	}
	var gs []c07Group
	for i := range eng {
		for j := i; j < len(eng); j++ {
			gs = append(gs, c07Group{Name: eng[i].Name + "||" + eng[j].Name, Bodies: []c07Body{eng[i], eng[j]}})
		}
	}
	for i := range tx {
		for j := i; j < len(tx); j++ {
			gs = append(gs, c07Group{Name: tx[i].Name + "||" + tx[j].Name, Bodies: []c07Body{tx[i], tx[j]}})
		}
		// a transaction method against engine-level traffic
		for _, e := range []string{"Engine.Get", "Engine.Put", "Engine.FlushImMemTables"} {
			for _, b := range eng {
				if b.Name == e {
					gs = append(gs, c07Group{Name: tx[i].Name + "||" + b.Name, Bodies: []c07Body{tx[i], b}})
				}
			}
		}
	}
	byName := map[string]c07Body{}
	for _, b := range bs {
		byName[b.Name] = b
	}
	for _, t := range [][]string{
		{"Engine.Delete", "Engine.Delete", "Engine.TriggerCompaction"},
		{"Engine.Put", "Engine.FlushImMemTables", "Engine.GetStats"},
		{"Engine.GetIterator", "Engine.FlushImMemTables", "Engine.TriggerCompaction"},
		{"Engine.Put", "Engine.Put", "Engine.FlushImMemTables"},
	} {
		g := c07Group{Name: strings.Join(t, "||")}
		for _, n := range t {
			g.Bodies = append(g.Bodies, byName[n])
		}
		gs = append(gs, g)
	}
	// the statistics and maintenance entry points again on an engine that has a compaction behind it
	for _, t := range [][]string{
		{"Engine.GetCompactionStats", "Engine.GetCompactionStats"},
		{"Engine.GetCompactionStats", "Engine.TriggerCompaction"},
		{"Engine.GetStats", "Engine.GetCompactionStats"},
		{"Engine.GetCompactionStats", "Engine.CompactRange"},
	} {
		g := c07Group{Name: "post-compaction:" + strings.Join(t, "||"), Post: true}
		for _, n := range t {
			g.Bodies = append(g.Bodies, byName[n])
		}
		gs = append(gs, g)
	}
	return gs
}

func c07Scenario(g c07Group) *explore.Scenario {
	return &explore.Scenario{Name: g.Name, MaxSteps: 3_000_000,
		Body: func() any {
			dir := filepath.Join(fw.ProcDir("c07"), "db")
			x, closeFn, err := c07Setup(dir, true, g.Post)
			if err != nil {
				return "open: " + err.Error()
			}
			defer closeFn()
			if g.Bodies[0].Tx {
				tx, err := x.eng.BeginTransaction(false)
				if err != nil {
					return "begin: " + err.Error()
				}
				x.tx = tx
				defer tx.Rollback()
			}
			var ts []*vsched.Thread
			for i, b := range g.Bodies {
				b := b
				ts = append(ts, vsched.GoNamed(fmt.Sprintf("P%d", i+1), func() { b.Run(x) }))
			}
			for _, t := range ts {
				vsched.Join(t)
			}
			// the engine still serves
			vsched.Quiesce()
			if _, err := x.eng.Get([]byte("c")); err != nil && !isNotFound(err) {
				return "get after the calls: " + err.Error()
			}
			return ""
		},
		Check: func(s *vsched.Sched, o any) (string, string) {
			if e := o.(string); e != "" {
				return "err", "engine-unusable\n" + e
			}
			return "returned", ""
		}}
}

// pass 3: the same bodies free-running under the race detector (binary built with -race, shims in pass-through mode)
func c07RaceUnit(unit string, env *fw.Env) *fw.Result {
	res := fw.NewResult()
	name := strings.TrimPrefix(unit, "race/")
	var g *c07Group
	for _, x := range c07Groups() {
		if x.Name == name {
			x := x
			g = &x
		}
	}
	if g == nil {
		res.HarnessErr = "unknown group " + name
		return res
	}
	iters := 5
	if env.Thorough {
		iters = 60
	}
	dir := filepath.Join(fw.Scratch("c07r"), "db")
	for it := 0; it < iters; it++ {
		if env.Expired() {
			break
		}
		fw.Progress(fmt.Sprintf("free-running race pass, group %s iteration %d", name, it))
		x, closeFn, err := c07Setup(dir, false, g.Post)
		if err != nil {
			res.Violate(fw.FP("C07", "open-failed"), "open failed: "+err.Error(), unit, map[string]any{"kind": "race-pass", "group": name})
			return res
		}
		if g.Bodies[0].Tx {
			tx, err := x.eng.BeginTransaction(false)
			if err == nil {
				x.tx = tx
			}
		}
		var wg sync.WaitGroup
		start := make(chan struct{})
		panics := make(chan string, 8)
		for _, b := range g.Bodies {
			b := b
			wg.Add(1)
			go func() {
				defer wg.Done()
				defer func() {
					if r := recover(); r != nil {
						panics <- fmt.Sprint(r)
					}
				}()
				<-start
				b.Run(x)
			}()
		}
		close(start)
		done := make(chan struct{})
		go func() { wg.Wait(); close(done) }()
		select {
		case <-done:
		case <-time.After(60 * time.Second):
			res.Violate(fw.FP("C07", "hang", name), "calls did not return within 60 s (free-running): "+name, unit, map[string]any{"kind": "race-pass", "group": name})
			return res
		}
		select {
		case p := <-panics:
			res.Violate(fw.FP("C07", "panic", name, firstLine(p)), "panic in "+name+": "+p, unit, map[string]any{"kind": "race-pass", "group": name})
		default:
		}
		if x.tx != nil {
			x.tx.Rollback()
		}
		closeFn()
		res.Evaluations++
		res.Count("free_running_iterations", 1)
	}
	res.Nontrivial = res.Evaluations
	return res
}

func init() {
	fw.Register(&fw.Check{
		ID:    "C07",
		Level: "model_checking",
		Rule: "entry points are taken from the method sets of *EngineFacade, interfaces.Transaction, interfaces.CompactionManager and stats.Collector (reflection; a method with neither a body nor a recorded exclusion is a HARNESS-ERROR). For every unordered pair of the 22 engine-level bodies (incl. a body with itself; range iterators are opened both with bounds and with nil bounds), every pair of the 7 transaction methods on one shared transaction, transaction methods against engine traffic, 4 triples and 4 statistics/maintenance pairs on an engine that has already completed a compaction cycle, on an engine with 2 level-0 files, an immutable table with a pending flush and a live background flush thread: pass 1 = all interleavings with <=1 deviation (2 thorough) under the controlled scheduler; deadlock, livelock, panic, step horizon or an unusable engine is a violation (witness: blocked threads and call sites). plus a burst of 4 writes on a 1-byte memtable (every write switches the table and wakes the background flush) with <=2 (3) deviations. pass 3 = the same bodies free-running in a -race build, 5 (60) iterations per group; a race report, panic, fatal error or a call that does not return within 60 s is a violation. Non-trivial = executions with a cross-thread conflict / completed iterations",
		Assumptions: []string{"data races are decided by the Go race detector on free-running executions of the same bodies (sampled schedules); the exhaustive pass covers deadlock, livelock, panics and non-returning calls", "Close concurrent with other calls is out of scope"},
		Units: func(tier string) []string {
			var us []string
			b := 1
			if tier == "thorough" {
				b = 2
			}
			for _, g := range c07Groups() {
				// the statistics collector keeps real primitives in controlled runs (no scheduling points inside): its
				// pairs with engine calls are left to the race pass
				if len(g.Bodies) == 2 && strings.HasPrefix(g.Bodies[0].Name, "Engine.") != strings.HasPrefix(g.Bodies[1].Name, "Engine.") && (strings.HasPrefix(g.Bodies[0].Name, "Stats.") || strings.HasPrefix(g.Bodies[1].Name, "Stats.")) {
					continue
				}
				us = append(us, schedSpec{g.Name, b, 0, 1}.String())
			}
			// a write burst on a 1-byte memtable: every write switches the table and wakes the background flush
			us = append(us, shardUnits("tiny-burst", b+1, 4)...)
			for _, g := range c07Groups() {
				us = append(us, "race/"+g.Name)
			}
			return us
		},
		ExeFor: func(unit string) string {
			if strings.HasPrefix(unit, "race/") {
				return "-race"
			}
			return ""
		},
		Run: func(unit string, env *fw.Env) *fw.Result {
			if m := c07Uncovered(); len(m) > 0 {
				r := fw.NewResult()
				r.HarnessErr = "entry points without a body: " + strings.Join(m, ", ")
				return r
			}
			if strings.HasPrefix(unit, "race/") {
				return c07RaceUnit(unit, env)
			}
			sp := parseSched(unit)
			if sp.Name == "tiny-burst" {
				for _, sc := range c06Scenarios() {
					if sc.Name == sp.Name {
						return runSched("C07", sc, sp, env, 1)
					}
				}
			}
			for _, g := range c07Groups() {
				if g.Name == sp.Name {
					return runSched("C07", c07Scenario(g), sp, env, 1)
				}
			}
			r := fw.NewResult()
			r.HarnessErr = "unknown unit " + unit
			return r
		},
		Replay: func(v *fw.Violation) string {
			if w, ok := v.Witness.(map[string]any); ok && w["kind"] == "schedule" {
				return replaySched(func(n string) *explore.Scenario {
					for _, sc := range c06Scenarios() {
						if sc.Name == n && n == "tiny-burst" {
							return sc
						}
					}
					for _, g := range c07Groups() {
						if g.Name == n {
							return c07Scenario(g)
						}
					}
					return nil
				}, v)
			}
			return fmt.Sprintf("re-run: kvcheck-full-race one C07 quick %s\nwitness: %v", v.Unit, v.Witness)
		},
		BudgetQuick: 150, BudgetThorough: 900,
	})
}
