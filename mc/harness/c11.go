package harness

import (
	"bytes"
	"encoding/json"
	"fmt"
	"os"
	"path/filepath"
	"strings"

	"github.com/KevoDB/kevo/pkg/sstable"
	"verif/mc/fw"
)

// C11 — an SSTable reads back exactly what was written into it.

type sstEntry struct {
	Key  []byte
	Val  []byte // nil = tombstone
	Seq  uint64
	Tomb bool
}

func (e sstEntry) String() string {
	v := fmt.Sprintf("%q", clip(e.Val))
	if e.Tomb {
		v = "TOMB"
	}
	return fmt.Sprintf("%q@%d=%s", clip(e.Key), e.Seq, v)
}

func clip(b []byte) string {
	if len(b) > 24 {
		return fmt.Sprintf("%s…(%dB)", b[:12], len(b))
	}
	return string(b)
}

func writeSST(path string, ents []sstEntry) error {
	w, err := sstable.NewWriter(path)
	if err != nil {
		return err
	}
	for _, e := range ents {
		var v []byte
		if !e.Tomb {
			v = e.Val
			if v == nil {
				v = []byte{}
			}
		}
		if err := w.AddWithSequence(e.Key, v, e.Seq); err != nil {
			w.Abort()
			return err
		}
	}
	return w.Finish()
}

func readSSTForward(r *sstable.Reader, limit int) ([]sstEntry, error) {
	it := r.NewIterator()
	var out []sstEntry
	for it.SeekToFirst(); it.Valid(); it.Next() {
		e := sstEntry{Key: append([]byte{}, it.Key()...), Seq: it.SequenceNumber(), Tomb: it.IsTombstone()}
		if !e.Tomb {
			e.Val = append([]byte{}, it.Value()...)
		}
		out = append(out, e)
		if len(out) > limit {
			return out, fmt.Errorf("iteration does not terminate (> %d entries)", limit)
		}
	}
	return out, it.Error()
}

func sameEntry(a, b sstEntry) bool {
	return bytes.Equal(a.Key, b.Key) && a.Seq == b.Seq && a.Tomb == b.Tomb && (a.Tomb || bytes.Equal(a.Val, b.Val))
}

// c11Shapes returns the named entry sets.
func c11Shapes(thorough bool) map[string][]sstEntry {
	shapes := map[string][]sstEntry{}
	key := func(i int) []byte { return []byte(fmt.Sprintf("key%03d", i)) }
	mk := func(n int, tomb func(i int) bool, val func(i int) []byte) []sstEntry {
		var es []sstEntry
		for i := 0; i < n; i++ {
			e := sstEntry{Key: key(i), Seq: uint64((i*7)%5 + 1)} // non-monotone sequence numbers
			if tomb != nil && tomb(i) {
				e.Tomb = true
			} else if val != nil {
				e.Val = val(i)
			} else {
				e.Val = []byte(fmt.Sprintf("v%d", i))
			}
			es = append(es, e)
		}
		return es
	}
	for _, n := range []int{1, 2, 15, 16, 17, 18, 31, 32, 33, 40} {
		shapes[fmt.Sprintf("n%d", n)] = mk(n, nil, nil)
		shapes[fmt.Sprintf("n%d-alt-tomb", n)] = mk(n, func(i int) bool { return i%2 == 0 }, nil)
		shapes[fmt.Sprintf("n%d-edge-tomb", n)] = mk(n, func(i int) bool { return i == 0 || i == n-1 || i%16 == 0 || i%16 == 15 }, nil)
		shapes[fmt.Sprintf("n%d-empty-vals", n)] = mk(n, nil, func(i int) []byte {
			if i%3 == 0 {
				return []byte{}
			}
			return []byte{byte(i)}
		})
	}
	// all tombstone masks for n<=6 (n=4 quick, 6 thorough)
	nm := 4
	if thorough {
		nm = 6
	}
	for n := 1; n <= nm; n++ {
		for m := 0; m < 1<<n; m++ {
			m := m
			shapes[fmt.Sprintf("mask%d-%02x", n, m)] = mk(n, func(i int) bool { return m>>i&1 == 1 }, func(i int) []byte {
				if i%2 == 1 {
					return []byte{}
				}
				return []byte("x")
			})
		}
	}
	// shared prefixes, key that is a prefix of its successor, binary keys
	var pf []sstEntry
	for i, k := range []string{"a", "aa", "aaa", "aaa\x00", "aaa\x00\x00", "aab", "ab", "ab\xff", "ab\xff\xff", "b", "\xff", "\xff\xff"} {
		pf = append(pf, sstEntry{Key: []byte(k), Val: []byte(fmt.Sprintf("p%d", i)), Seq: uint64(100 - i)})
	}
	shapes["prefix-keys"] = pf
	long := strings.Repeat("k", 300)
	var lk []sstEntry
	for i := 0; i < 20; i++ {
		lk = append(lk, sstEntry{Key: []byte(fmt.Sprintf("%s%02d", long, i)), Val: []byte{byte(i)}, Seq: uint64(i)})
	}
	shapes["long-shared-prefix"] = lk
	// position of the first difference between neighbouring keys: every position p of keys of length L (around
	// the 8-byte word sizes a prefix computation may work in), with an equal tail behind the differing byte
	// ("001/profile", "002/profile") and with a differing tail
	for _, L := range []int{8, 9, 12, 16, 17, 24, 31} {
		for p := 0; p < L; p++ {
			for _, tail := range []string{"eq", "ne"} {
				var dk []sstEntry
				for j := 0; j < 20; j++ {
					k := bytes.Repeat([]byte("P"), p)
					k = append(k, byte('a'+j))
					t := byte('S')
					if tail == "ne" && j%2 == 1 {
						t = 'T'
					}
					k = append(k, bytes.Repeat([]byte{t}, L-p-1)...)
					dk = append(dk, sstEntry{Key: k, Val: []byte(fmt.Sprintf("d%d", j)), Seq: uint64(j + 1)})
				}
				shapes[fmt.Sprintf("diffpos-L%d-p%d-%s", L, p, tail)] = dk
			}
		}
	}
	// keys at the format limit (the key length is a 16-bit field): 65535 and 65534 bytes, stored prefix-compressed
	// behind a short key and behind a key sharing most of their bytes
	for _, n := range []int{65535, 65534} {
		kmax := append([]byte("b"), bytes.Repeat([]byte("x"), n-1)...)
		kmax2 := append(append([]byte{}, kmax[:n-1]...), 'y')
		shapes[fmt.Sprintf("key%d", n)] = []sstEntry{
			{Key: []byte("a"), Val: []byte("1"), Seq: 1},
			{Key: kmax, Val: []byte("2"), Seq: 2},
			{Key: kmax2, Val: []byte("3"), Seq: 3},
			{Key: []byte("c"), Val: []byte("4"), Seq: 4},
		}
	}
	// multi-block tables: 20 KiB values, 64 KiB blocks
	big := func(i int) []byte { return bytes.Repeat([]byte{byte('A' + i%26)}, 20*1024) }
	shapes["blocks2"] = mk(5, nil, big)
	shapes["blocks3"] = mk(8, func(i int) bool { return i == 3 }, big)
	// dense blocks: blocks are cut by bytes, not by entry count, so small entries give blocks far beyond the 1024
	// entries the format's constants suggest (65 restart points = 1040 entries); one block and several
	dkey := func(i int) []byte { return []byte(fmt.Sprintf("%05d", i)) }
	dn := []int{1024, 1025, 1040, 1041, 3500}
	if thorough {
		dn = append(dn, 1023, 1039, 1056, 1057, 2978, 2979, 7000)
	}
	for _, n := range dn {
		var es []sstEntry
		for i := 0; i < n; i++ {
			e := sstEntry{Key: dkey(i), Seq: uint64(i%3 + 1)}
			if i%5 == 4 {
				e.Tomb = true
			} else if i%5 != 0 {
				e.Val = []byte{byte('a' + i%26)}
			} else {
				e.Val = []byte{}
			}
			es = append(es, e)
		}
		shapes[fmt.Sprintf("dense%d", n)] = es
	}
	if thorough {
		// an index block beyond the same count: 1100 one-entry blocks (64 KiB values)
		var es []sstEntry
		for i := 0; i < 1100; i++ {
			e := sstEntry{Key: dkey(i), Seq: uint64(i%4 + 1)}
			if i%97 == 5 {
				e.Tomb = true
			} else {
				e.Val = bytes.Repeat([]byte{byte('A' + i%26)}, 64*1024)
			}
			es = append(es, e)
		}
		shapes["blocks1100"] = es
	}
	if thorough {
		shapes["blocks5-mixed"] = mk(40, func(i int) bool { return i%7 == 3 }, func(i int) []byte {
			if i%3 == 0 {
				return big(i)
			}
			return []byte(fmt.Sprintf("s%d", i))
		})
	}
	return shapes
}

func c11Targets(ents []sstEntry) [][]byte {
	var ts [][]byte
	ts = append(ts, []byte{}, []byte{0})
	for _, e := range ents {
		k := e.Key
		ts = append(ts, k, append(append([]byte{}, k...), 0))
		if len(k) > 0 {
			p := append([]byte{}, k...)
			if p[len(p)-1] > 0 {
				p[len(p)-1]--
				ts = append(ts, append(p, 0xff))
			}
		}
	}
	ts = append(ts, []byte("\xff\xff\xff"))
	return ts
}

func c11CheckClean(name string, ents []sstEntry, dir string, res *fw.Result, unit string) {
	path := filepath.Join(dir, name+".sst")
	viol := func(clause, detail string) {
		res.Violate(fw.FP("C11", clause, name), fmt.Sprintf("sstable %s [%s]: %s", name, clause, detail), unit, map[string]any{"kind": "sst-clean", "shape": name, "clause": clause})
	}
	if err := writeSST(path, ents); err != nil {
		viol("write-failed", err.Error())
		return
	}
	defer os.Remove(path)
	r, err := sstable.OpenReader(path)
	if err != nil {
		viol("open-failed", err.Error())
		return
	}
	defer r.Close()
	res.Evaluations++
	if len(ents) > 1 {
		res.Nontrivial++
	}
	fw.Progress("sst-clean shape=" + name)
	light := strings.HasPrefix(name, "blocks1") // very large table: seeks are followed by 2 steps, not by the whole rest
	got, err := readSSTForward(r, len(ents)*3+10)
	if err != nil {
		viol("iterate-error", err.Error())
	}
	if len(got) != len(ents) {
		viol("iterate-count", fmt.Sprintf("forward iteration yields %d entries, %d written; got %v", len(got), len(ents), head2(got, 6)))
	} else {
		for i := range ents {
			if !sameEntry(got[i], ents[i]) {
				viol("iterate-content", fmt.Sprintf("entry %d: got %v, written %v", i, got[i], ents[i]))
				break
			}
		}
	}
	// forward iteration driven by Next alone: a fresh iterator positions itself on the first call
	{
		it := r.NewIterator()
		var got2 []sstEntry
		for it.Next() && len(got2) <= len(ents)*3+10 {
			e := sstEntry{Key: append([]byte{}, it.Key()...), Seq: it.SequenceNumber(), Tomb: it.IsTombstone()}
			if !e.Tomb {
				e.Val = append([]byte{}, it.Value()...)
			}
			got2 = append(got2, e)
		}
		if len(got2) != len(ents) {
			viol("next-only-count", fmt.Sprintf("iteration by Next alone yields %d entries, %d written; got %v", len(got2), len(ents), head2(got2, 6)))
		} else {
			for i := range ents {
				if !sameEntry(got2[i], ents[i]) {
					viol("next-only-content", fmt.Sprintf("entry %d: got %v, written %v", i, got2[i], ents[i]))
					break
				}
			}
		}
	}
	// seeks
	for _, t := range c11Targets(ents) {
		res.Evaluations++
		fw.Alive()
		it := r.NewIterator()
		ok := it.Seek(t)
		var want *sstEntry
		for i := range ents {
			if bytes.Compare(ents[i].Key, t) >= 0 {
				want = &ents[i]
				break
			}
		}
		valid := it.Valid()
		if want == nil {
			if ok || valid {
				viol("seek-past-end", fmt.Sprintf("Seek(%q) -> ok=%v valid=%v key=%q, expected invalid", clip(t), ok, valid, clip(it.Key())))
				break
			}
			continue
		}
		if !ok || !valid {
			viol("seek-invalid", fmt.Sprintf("Seek(%q) -> ok=%v valid=%v, expected %v", clip(t), ok, valid, *want))
			break
		}
		g := sstEntry{Key: it.Key(), Seq: it.SequenceNumber(), Tomb: it.IsTombstone(), Val: it.Value()}
		if !sameEntry(g, *want) {
			viol("seek-wrong", fmt.Sprintf("Seek(%q) -> %v, expected %v", clip(t), g, *want))
			break
		}
		// continue iterating from the seek position: must yield the rest in order
		idx := 0
		for i := range ents {
			if &ents[i] == want {
				idx = i
			}
		}
		n := 0
		bad := false
		for it.Valid() && n < len(ents)+3 && !(light && n >= 2) {
			if idx+n >= len(ents) || !bytes.Equal(it.Key(), ents[idx+n].Key) {
				viol("seek-then-next", fmt.Sprintf("after Seek(%q), step %d yields %q, expected %v", clip(t), n, clip(it.Key()), keyAt(ents, idx+n)))
				bad = true
				break
			}
			n++
			it.Next()
		}
		if !bad && idx+n != len(ents) && !light {
			viol("seek-then-next", fmt.Sprintf("after Seek(%q) iteration ended after %d entries, expected %d", clip(t), n, len(ents)-idx))
			bad = true
		}
		if bad {
			break
		}
	}
	// seek to last
	it := r.NewIterator()
	it.SeekToLast()
	if !it.Valid() || !bytes.Equal(it.Key(), ents[len(ents)-1].Key) {
		viol("seek-to-last", fmt.Sprintf("SeekToLast -> valid=%v key=%q, expected %q", it.Valid(), clip(it.Key()), clip(ents[len(ents)-1].Key)))
	}
	// point lookups
	for _, e := range ents {
		res.Evaluations++
		fw.Alive()
		v, err := r.Get(e.Key)
		if err != nil {
			viol("get-missing", fmt.Sprintf("Get(%q) -> %v; key was written", clip(e.Key), err))
			break
		}
		if e.Tomb {
			if v != nil {
				viol("get-wrong", fmt.Sprintf("Get(%q) -> %q for a deletion marker", clip(e.Key), clip(v)))
				break
			}
		} else if v == nil || !bytes.Equal(v, e.Val) {
			viol("get-wrong", fmt.Sprintf("Get(%q) -> %q (nil=%v), written %q", clip(e.Key), clip(v), v == nil, clip(e.Val)))
			break
		}
	}
	// the same reader used non-monotonically: lookups that go back and forth between the ends of the table, an
	// iterator that keeps going while lookups and a second iterator work elsewhere in the file
	{
		n := len(ents)
		stride := 1
		if n > 300 {
			stride = n / 150
		}
		getOK := func(e sstEntry, ctx string) bool {
			fw.Alive()
			v, err := r.Get(e.Key)
			res.Evaluations++
			if err != nil {
				viol("get-missing", fmt.Sprintf("%s: Get(%q) -> %v; key was written (and found earlier on the same reader)", ctx, clip(e.Key), err))
				return false
			}
			if e.Tomb && v != nil || !e.Tomb && (v == nil || !bytes.Equal(v, e.Val)) {
				viol("get-wrong", fmt.Sprintf("%s: Get(%q) -> %q (nil=%v), written %v", ctx, clip(e.Key), clip(v), v == nil, e))
				return false
			}
			return true
		}
		ok := true
		for i := 0; i < n && ok; i += stride {
			ok = getOK(ents[i], "alternating lookups") && getOK(ents[n-1-i], "alternating lookups")
		}
		it1 := r.NewIterator()
		it1.SeekToFirst()
		it2 := r.NewIterator()
		mid := n / 2
		it2.Seek(ents[mid].Key)
		j := mid
		for i := 0; i < n && ok; i++ {
			if !it1.Valid() || !bytes.Equal(it1.Key(), ents[i].Key) || it1.IsTombstone() != ents[i].Tomb || (!ents[i].Tomb && !bytes.Equal(it1.Value(), ents[i].Val)) {
				viol("interleaved-iteration", fmt.Sprintf("an iterator interleaved with lookups and a second iterator on the same reader: step %d yields valid=%v key=%q, expected %v", i, it1.Valid(), clip(it1.Key()), ents[i]))
				ok = false
				break
			}
			if i%stride == 0 {
				ok = getOK(ents[(i+n/2)%n], "lookup during an iteration") && getOK(ents[n-1-i%n], "lookup during an iteration")
				if j < n {
					if !it2.Valid() || !bytes.Equal(it2.Key(), ents[j].Key) {
						viol("interleaved-iteration", fmt.Sprintf("second iterator (started at entry %d) on the same reader: yields valid=%v key=%q, expected %v", mid, it2.Valid(), clip(it2.Key()), ents[j]))
						ok = false
						break
					}
					it2.Next()
					j++
				}
			}
			it1.Next()
		}
		if ok && it1.Valid() {
			viol("interleaved-iteration", fmt.Sprintf("the interleaved iterator yields %q after the last entry", clip(it1.Key())))
		}
	}
	for _, t := range c11Targets(ents) {
		isKey := false
		for _, e := range ents {
			if bytes.Equal(e.Key, t) {
				isKey = true
			}
		}
		if isKey {
			continue
		}
		res.Evaluations++
		if v, err := r.Get(t); err == nil {
			viol("get-phantom", fmt.Sprintf("Get(%q) -> %q for a key that was never written", clip(t), clip(v)))
			break
		}
	}
}

func keyAt(e []sstEntry, i int) string {
	if i < len(e) {
		return fmt.Sprintf("%q", clip(e[i].Key))
	}
	return "<end>"
}

func head2(e []sstEntry, n int) []sstEntry {
	if len(e) > n {
		return e[:n]
	}
	return e
}

var c11Shard, c11NShards = 0, 1

// damage: every byte (or stride positions for large files) x value classes
func c11Damage(name string, ents []sstEntry, dir string, res *fw.Result, unit string, env *fw.Env) {
	path := filepath.Join(dir, name+".sst")
	if err := writeSST(path, ents); err != nil {
		return
	}
	orig, _ := os.ReadFile(path)
	os.Remove(path)
	var positions []int
	if len(orig) <= 8*1024 {
		for i := range orig {
			positions = append(positions, i)
		}
	} else {
		// section boundaries: every 64 bytes around the tail (bloom, index, footer = last 4 KiB), first 256 bytes, stride 251
		for i := 0; i < 256 && i < len(orig); i++ {
			positions = append(positions, i)
		}
		stride := 251
		if env.Thorough {
			stride = 1
		}
		for i := 256; i < len(orig)-6*1024; i += stride {
			positions = append(positions, i)
		}
		for i := max0(len(orig) - 6*1024); i < len(orig); i++ {
			positions = append(positions, i)
		}
	}
	classes := []func(b byte) byte{func(b byte) byte { return b ^ 0x01 }, func(b byte) byte { return b ^ 0x80 }, func(b byte) byte { return 0xFF }}
	dpath := filepath.Join(dir, name+".dmg.sst")
	for pi, pos := range positions {
		if pi%c11NShards != c11Shard {
			continue
		}
		if env.Expired() {
			res.Exhaustive = false
			res.Caps = append(res.Caps, fmt.Sprintf("%s: damage enumeration stopped at position %d of %d", name, pos, len(orig)))
			return
		}
		for ci, cl := range classes {
			nb := cl(orig[pos])
			if nb == orig[pos] {
				continue
			}
			buf := append([]byte{}, orig...)
			buf[pos] = nb
			os.WriteFile(dpath, buf, 0644)
			fw.Progress(fmt.Sprintf("sst-damage shape=%s pos=%d class=%d", name, pos, ci))
			res.Evaluations++
			problem := c11OpenDamaged(dpath, ents)
			if problem != "" {
				cls := strings.SplitN(problem, ":", 2)[0]
				region := c11Region(pos, len(orig))
				res.Violate(fw.FP("C11", "damage", cls, region), fmt.Sprintf("sstable %s damaged at byte %d/%d (class %d, %s): %s", name, pos, len(orig), ci, region, problem), unit,
					map[string]any{"kind": "sst-damage", "shape": name, "pos": pos, "class": ci})
			} else {
				res.Nontrivial++
			}
		}
	}
	os.Remove(dpath)
}

func max0(i int) int {
	if i < 0 {
		return 0
	}
	return i
}

func c11Region(pos, size int) string {
	if pos >= size-68 {
		return "footer"
	}
	return "body"
}

func c11OpenDamaged(path string, ents []sstEntry) (problem string) {
	defer func() {
		if r := recover(); r != nil {
			problem = fmt.Sprintf("panic: %v", r)
		}
	}()
	r, err := sstable.OpenReader(path)
	if err != nil {
		return ""
	}
	defer r.Close()
	got, _ := readSSTForward(r, len(ents)*3+10)
	for _, g := range got {
		ok := false
		for _, e := range ents {
			if sameEntry(g, e) {
				ok = true
				break
			}
		}
		if !ok {
			return fmt.Sprintf("fabricated-entry: iteration yields %v which was never written", g)
		}
	}
	for i := 1; i < len(got); i++ {
		if bytes.Compare(got[i-1].Key, got[i].Key) >= 0 {
			return fmt.Sprintf("disorder: iteration yields %q then %q", clip(got[i-1].Key), clip(got[i].Key))
		}
	}
	for _, e := range ents {
		v, err := r.Get(e.Key)
		if err != nil {
			continue
		}
		if e.Tomb && v != nil || !e.Tomb && !bytes.Equal(v, e.Val) {
			return fmt.Sprintf("fabricated-get: Get(%q) -> %q, written %v", clip(e.Key), clip(v), e)
		}
	}
	return ""
}

func c11Unit(unit string, env *fw.Env) *fw.Result {
	res := fw.NewResult()
	dir := fw.Scratch("c11")
	defer os.RemoveAll(dir)
	shapes := c11Shapes(env.Thorough)
	parts := strings.SplitN(unit, "/", 2)
	names := sortedKeys(shapes)
	switch parts[0] {
	case "clean":
		var k, n int
		fmt.Sscanf(parts[1], "%d/%d", &k, &n)
		for i, name := range names {
			if i%n != k {
				continue
			}
			c11CheckClean(name, shapes[name], dir, res, unit)
			if len(res.Samples) < 2 {
				res.Sample(map[string]any{"shape": name, "entries": fmt.Sprint(head2(shapes[name], 4)), "n": len(shapes[name])})
			}
		}
	case "damage":
		name := parts[1]
		c11Shard, c11NShards = 0, 1
		if i := strings.Index(name, "/"); i > 0 {
			fmt.Sscanf(name[i+1:], "%d/%d", &c11Shard, &c11NShards)
			name = name[:i]
		}
		c11Damage(name, shapes[name], dir, res, unit, env)
		res.Sample(map[string]any{"damage_shape": name, "evaluations": res.Evaluations})
	}
	return res
}

func sortedKeys[V any](m map[string]V) []string {
	var ks []string
	for k := range m {
		ks = append(ks, k)
	}
	sortStrings(ks)
	return ks
}

func init() {
	fw.Register(&fw.Check{
		ID:    "C11",
		Level: "exploration",
		Rule: "entry sets: n in {1,2,15,16,17,18,31,32,33,40} x {plain, alternating / restart-edge tombstones, empty values}, all tombstone masks for n<=4 (6 thorough), prefix/binary keys, long shared prefixes, keys of 65535 and 65534 bytes (the format limit) stored prefix-compressed, 2/3(/5)-block tables, dense tables of 1024/1025/1040/1041/3500 six-byte entries (one block far beyond 1024 entries / 65 restart points; thorough adds 1023..7000 and a 1100-block table); for each: forward iteration (from SeekToFirst, and by Next alone on a fresh iterator), Seek to every key / successor / predecessor / both ends followed by iteration to the end, SeekToLast, Get of every key and every non-key target, then the same reader used non-monotonically (lookups alternating between both ends of the table, an iterator that keeps going while lookups and a second iterator work elsewhere in the file). " +
			"Damage: every byte (files <= 8 KiB; head, 251-stride (every byte in the thorough tier) and last 6 KiB for larger) x {^0x01, ^0x80, 0xFF}: open+iterate+get must fail or yield only written entries. Non-trivial = tables with >1 entry / damaged opens that were evaluated to the end",
		Assumptions: []string{"key/value sizes up to 20 KiB values and 302-byte keys; single-byte damage only"},
		Units: func(tier string) []string {
			var us []string
			for k := 0; k < 8; k++ {
				us = append(us, fmt.Sprintf("clean/%d/8", k))
			}
			dm := []string{"n1", "n2", "n17", "n33-edge-tomb", "mask3-05", "prefix-keys", "n18-empty-vals"}
			if tier == "thorough" {
				dm = append(dm, "n40-alt-tomb", "long-shared-prefix", "blocks3", "blocks2", "n16", "n32")
			} else {
				dm = append(dm, "blocks3")
			}
			for _, d := range dm {
				if tier == "thorough" && (d == "blocks3" || d == "blocks2") {
					for k := 0; k < 8; k++ {
						us = append(us, fmt.Sprintf("damage/%s/%d/8", d, k))
					}
					continue
				}
				us = append(us, "damage/"+d)
			}
			return us
		},
		Run:    c11Unit,
		Replay: func(v *fw.Violation) string { b, _ := json.Marshal(v.Witness); return "re-run: kvcheck one C11 quick " + v.Unit + "\nwitness: " + string(b) },
		BudgetQuick: 100, BudgetThorough: 600,
	})
}
