package harness

import (
	"bytes"
	"encoding/binary"
	"encoding/json"
	"fmt"
	"os"
	"path/filepath"
	"sort"
	"strings"

	"github.com/KevoDB/kevo/pkg/config"
	"github.com/KevoDB/kevo/pkg/engine"
	"github.com/KevoDB/kevo/pkg/wal"
	"verif/mc/fw"
)

// C10 — log damage is contained: exact prefix recovered, nothing fabricated.

var c10Bases = map[string]walProg{
	"small4":     {"a:small", "a:del", "a:emptyval", "a:small"},
	"frag-mid":   {"a:small", "a:2rec+1", "a:small"},
	"batch-mid":  {"a:small", "b:b3", "a:small"},
	"two-files":  {"a:small", "a:small", "rotate", "a:small", "a:small"},
	"three-files": {"a:small", "a:del", "rotate", "b:b3", "rotate", "a:small", "a:rec+1", "a:small"},
	"bigkey":     {"a:small", "a:bigkey", "a:small"},
	"batch-last": {"a:small", "b:b3"},
	"frag-last":  {"a:small", "a:rec+1"},
}

// further base logs of the thorough tier
var c10BasesThorough = map[string]walProg{
	"frag-exact":  {"a:small", "a:rem=M", "a:small"},
	"frag-frag":   {"a:rec+1", "a:bigkey-del", "a:small"},
	"batch-big":   {"a:small", "b:b3x30k", "a:del"},
	"del-frag":    {"a:small", "a:del-rem=M", "a:emptyval"},
	"four-files":  {"a:small", "rotate", "a:rec+1", "a:small", "rotate", "b:b3", "rotate", "a:small", "a:del"},
}

func c10Prog(name string) walProg {
	if p, ok := c10Bases[name]; ok {
		return p
	}
	return c10BasesThorough[name]
}

// record boundaries of a WAL file, parsed independently of the implementation.
type walRec struct {
	Off, End int // [Off,End)
	Type     byte
	EntryEnd bool // a logical entry completes with this record
}

func parseWalFile(b []byte) []walRec {
	var recs []walRec
	off := 0
	for off+7 <= len(b) {
		l := int(binary.LittleEndian.Uint16(b[off+4 : off+6]))
		t := b[off+6]
		end := off + 7 + l
		if end > len(b) {
			break
		}
		recs = append(recs, walRec{Off: off, End: end, Type: t, EntryEnd: t == 1 || t == 4})
		off = end
	}
	return recs
}

type c10Base struct {
	Older    bool // the target is not the newest file: entries of newer files are optional
	Name     string
	Dir      string // pristine copy
	Exp      []walEnt
	Newest   string // file name of newest wal file
	Data     []byte // its content
	Recs     []walRec
	InNewest int // number of logical entries in the newest file
	Stride   int // position stride for files > 4 KiB
	// damage target other than the newest file (thorough tier): entries of older files come first
	Before int // number of logical entries in files older than the target
}

// retarget makes the k-th log file (0 = oldest) the damage target.
func (b *c10Base) retarget(k int) error {
	files, _ := wal.FindWALFiles(filepath.Join(b.Dir, "wal"))
	if k >= len(files)-1 {
		return fmt.Errorf("no older file %d", k)
	}
	before := 0
	for i := 0; i < k; i++ {
		d, _ := os.ReadFile(files[i])
		for _, r := range parseWalFile(d) {
			if r.EntryEnd {
				before++
			}
		}
	}
	data, _ := os.ReadFile(files[k])
	b.Newest, b.Data, b.Recs, b.Before = filepath.Base(files[k]), data, parseWalFile(data), before
	b.InNewest = 0
	for _, r := range b.Recs {
		if r.EntryEnd {
			b.InNewest++
		}
	}
	b.Older = true
	return nil
}

func c10Build(name string, root string) (*c10Base, error) {
	dir := filepath.Join(root, "base-"+name)
	exp, w, err := runWalProg(dir, c10Prog(name), true, config.SyncImmediate)
	if err != nil {
		return nil, err
	}
	if err := w.Close(); err != nil {
		return nil, err
	}
	files, _ := wal.FindWALFiles(filepath.Join(dir, "wal"))
	if len(files) == 0 {
		return nil, fmt.Errorf("no wal files")
	}
	newest := files[len(files)-1]
	data, _ := os.ReadFile(newest)
	b := &c10Base{Name: name, Dir: dir, Exp: exp, Newest: filepath.Base(newest), Data: data, Recs: parseWalFile(data)}
	for _, r := range b.Recs {
		if r.EntryEnd {
			b.InNewest++
		}
	}
	return b, nil
}

// required returns how many entries of Exp must be recovered when the first damaged byte of the newest file is p.
func (b *c10Base) required(p int) int {
	n := len(b.Exp) - b.InNewest
	if b.Older {
		n = b.Before
	}
	for _, r := range b.Recs {
		if r.End <= p && r.EntryEnd {
			n++
		}
	}
	return n
}

func (b *c10Base) positions(trunc bool) []int {
	set := map[int]bool{}
	if len(b.Data) <= 4096 {
		for i := 0; i < len(b.Data); i++ {
			set[i] = true
		}
	} else {
		for _, r := range b.Recs {
			for i := r.Off - 16; i < r.Off+7+16; i++ {
				if i >= 0 && i < len(b.Data) {
					set[i] = true
				}
			}
			for i := r.End - 16; i < r.End; i++ {
				if i >= 0 {
					set[i] = true
				}
			}
		}
		stride := 251
		if b.Stride > 0 {
			stride = b.Stride
		}
		for i := 0; i < len(b.Data); i += stride {
			set[i] = true
		}
	}
	var ps []int
	for p := range set {
		ps = append(ps, p)
	}
	sort.Ints(ps)
	return ps
}

func copyTree(src, dst string) error {
	return filepath.Walk(src, func(p string, info os.FileInfo, err error) error {
		if err != nil {
			return err
		}
		rel, _ := filepath.Rel(src, p)
		t := filepath.Join(dst, rel)
		if info.IsDir() {
			return os.MkdirAll(t, 0755)
		}
		b, err := os.ReadFile(p)
		if err != nil {
			return err
		}
		return os.WriteFile(t, b, 0644)
	})
}

// checkDelivered applies the subset/superset rule to a delivered sequence.
func checkDelivered(exp, got []walEnt, required int) string {
	// got must be a subsequence of exp with exact equality
	j := 0
	var matched []int
	for gi, g := range got {
		found := false
		for j < len(exp) {
			if sameWal(exp[j], g) {
				matched = append(matched, j)
				j++
				found = true
				break
			}
			j++
		}
		if !found {
			// distinguish fabricated from reordered/duplicated
			for _, e := range exp {
				if sameWal(e, g) {
					return fmt.Sprintf("reordered-or-duplicated: delivered entry %d %v is out of order or repeated", gi, g)
				}
			}
			return fmt.Sprintf("fabricated: delivered entry %d %v was never appended", gi, g)
		}
	}
	for i := 0; i < required; i++ {
		ok := false
		for _, m := range matched {
			if m == i {
				ok = true
			}
		}
		if !ok {
			return fmt.Sprintf("lost-intact-entry: entry %d %v was completely written before the damage but is not recovered (recovered %d of %d required)", i, exp[i], len(matched), required)
		}
	}
	return ""
}

// engine level: expected visible state after applying a set of entries in order
func applyWalEnts(es []walEnt) map[string][]byte {
	m := map[string][]byte{}
	for _, e := range es {
		if e.Type == wal.OpTypeDelete {
			delete(m, string(e.Key))
		} else {
			m[string(e.Key)] = e.Val
		}
	}
	return m
}

func c10Eval(b *c10Base, root string, kind string, pos int, class int, full bool) (problem string) {
	defer func() {
		if r := recover(); r != nil {
			problem = fmt.Sprintf("panic: %v", r)
		}
	}()
	work := filepath.Join(root, "work")
	os.RemoveAll(work)
	if err := copyTree(b.Dir, work); err != nil {
		return "HARNESS: " + err.Error()
	}
	target := filepath.Join(work, "wal", b.Newest)
	data := append([]byte{}, b.Data...)
	switch kind {
	case "trunc":
		data = data[:pos]
	case "byte":
		cls := []func(byte) byte{func(x byte) byte { return x ^ 0x01 }, func(x byte) byte { return x ^ 0x80 }, func(x byte) byte { return 0 }, func(x byte) byte { return 0xFF }, func(x byte) byte { return x + 1 }}
		nb := cls[class](data[pos])
		if nb == data[pos] {
			return "skip"
		}
		data[pos] = nb
	}
	if err := os.WriteFile(target, data, 0644); err != nil {
		return "HARNESS: " + err.Error()
	}
	required := b.required(pos)
	// 1. WAL level
	got, rerr := replayDir(filepath.Join(work, "wal"))
	if p := checkDelivered(b.Exp, got, required); p != "" {
		if rerr != nil {
			p += fmt.Sprintf(" (ReplayWALDir error: %v)", rerr)
		}
		return "replay-" + p
	}
	if !full {
		return ""
	}
	// 2. engine level: opening succeeds and shows required entries, nothing invented
	cfgFix(work)
	eng, err := engine.NewEngineFacade(work)
	if err != nil {
		return "open-failed: " + err.Error()
	}
	closed := false
	defer func() {
		if !closed {
			eng.Close()
		}
	}()
	files, _ := wal.FindWALFiles(filepath.Join(work, "wal"))
	if len(files) == 0 {
		return "wal-files-discarded: no log file left in the wal directory after opening"
	}
	stateProblem := func(e *engine.EngineFacade, extra []walEnt, phase string) string {
		// every key ever appended: its visible value must equal the value of some admissible history.
		// Admissible histories: exp[0:required] plus any subsequence of later entries, in order. Because every
		// key is written at most once per base log (fresh keys) except deletes, we check per key:
		all := append(append([]walEnt{}, b.Exp...), extra...)
		must := applyWalEnts(append(append([]walEnt{}, b.Exp[:required]...), extra...))
		for k, v := range must {
			// a later (optional) entry may legitimately override: collect optional writes to k
			gv, gerr := e.Get([]byte(k))
			ok := gerr == nil && bytes.Equal(gv, v)
			if !ok {
				for _, o := range b.Exp[required:] {
					if string(o.Key) == k {
						if o.Type == wal.OpTypeDelete && gerr != nil {
							ok = true
						}
						if o.Type != wal.OpTypeDelete && gerr == nil && bytes.Equal(gv, o.Val) {
							ok = true
						}
					}
				}
			}
			if !ok {
				return fmt.Sprintf("%s-lost-intact-entry: Get(%s[%d]) = (%dB, %v); an intact entry wrote %dB", phase, clip([]byte(k)), len(k), len(gv), gerr, len(v))
			}
		}
		// nothing invented: scan
		it, err := e.GetIterator()
		if err != nil {
			return phase + "-scan-failed: " + err.Error()
		}
		for it.SeekToFirst(); it.Valid(); it.Next() {
			if it.IsTombstone() {
				continue
			}
			k, v := it.Key(), it.Value()
			ok := false
			for _, o := range all {
				if o.Type != wal.OpTypeDelete && bytes.Equal(o.Key, k) && bytes.Equal(o.Val, v) {
					ok = true
				}
			}
			if !ok {
				return fmt.Sprintf("%s-fabricated: scan yields %s[%d]=%dB which was never written", phase, clip(k), len(k), len(v))
			}
		}
		return ""
	}
	if p := stateProblem(eng, nil, "open"); p != "" {
		return p
	}
	// 3. two writes, clean close, second recovery
	n1 := walEnt{Type: wal.OpTypePut, Key: []byte("new-1"), Val: []byte("after-recovery-1")}
	n2 := walEnt{Type: wal.OpTypePut, Key: []byte("new-2"), Val: []byte("after-recovery-2")}
	if err := eng.Put(n1.Key, n1.Val); err != nil {
		return "write-after-recovery-failed: " + err.Error()
	}
	if err := eng.Put(n2.Key, n2.Val); err != nil {
		return "write-after-recovery-failed: " + err.Error()
	}
	if err := eng.Close(); err != nil {
		return "close-failed: " + err.Error()
	}
	closed = true
	eng2, err := engine.NewEngineFacade(work)
	if err != nil {
		return "second-open-failed: " + err.Error()
	}
	defer eng2.Close()
	if p := stateProblem(eng2, []walEnt{n1, n2}, "second-recovery"); p != "" {
		return p
	}
	return ""
}

// cfgFix writes a manifest pointing at the work directory (manifests store absolute paths).
func cfgFix(dir string) {
	cfg := config.NewDefaultConfig(dir)
	cfg.SaveManifest(dir)
}

func c10Unit(unit string, env *fw.Env) *fw.Result {
	res := fw.NewResult()
	root := fw.Scratch("c10")
	defer os.RemoveAll(root)
	parts := strings.Split(unit, "/")
	name, kind := parts[0], parts[1]
	var shard, nsh int
	fmt.Sscanf(parts[2], "%d", &shard)
	fmt.Sscanf(parts[3], "%d", &nsh)
	b, err := c10Build(name, root)
	if err != nil {
		res.HarnessErr = "cannot build base log " + name + ": " + err.Error()
		return res
	}
	if env.Thorough {
		b.Stride = 3
	}
	evalKind := kind
	if strings.HasPrefix(kind, "old") {
		var k int
		fmt.Sscanf(kind, "old%d", &k)
		if err := b.retarget(k); err != nil {
			return res // this base has no such file
		}
		evalKind = "byte"
	}
	ps := b.positions(evalKind == "trunc")
	classes := 1
	if evalKind == "byte" {
		classes = 5
	}
	for i, p := range ps {
		if i%nsh != shard {
			continue
		}
		if env.Expired() {
			res.Exhaustive = false
			res.Caps = append(res.Caps, fmt.Sprintf("%s: stopped at position %d", unit, p))
			break
		}
		for c := 0; c < classes; c++ {
			// the engine-level part is run for every truncation and for header bytes / every 8th payload byte of overwrites
			full := true
			fw.Progress(fmt.Sprintf("wal-damage base=%s kind=%s pos=%d class=%d", name, kind, p, c))
			problem := c10Eval(b, root, evalKind, p, c, full)
			if problem == "skip" {
				continue
			}
			res.Evaluations++
			if b.required(p) < len(b.Exp) {
				res.Nontrivial++ // damage falls inside or before some entry
			}
			if problem != "" {
				cls := strings.SplitN(problem, ":", 2)[0]
				where := c10Where(b, p)
				res.Violate(fw.FP("C10", name, kind, cls, where), fmt.Sprintf("wal damage base=%s %s at %d/%d (class %d, %s): %s", name, kind, p, len(b.Data), c, where, problem), unit,
					map[string]any{"kind": "wal-damage", "base": name, "damage": kind, "pos": p, "class": c, "prog": c10Prog(name)})
			}
		}
	}
	if shard == 0 {
		res.Sample(map[string]any{"base": name, "program": c10Prog(name), "newest_file_bytes": len(b.Data), "records": len(b.Recs), "damage": kind, "positions": len(ps)})
	}
	return res
}

func inHeader(b *c10Base, p int) bool {
	for _, r := range b.Recs {
		if p >= r.Off && p < r.Off+7 {
			return true
		}
	}
	return false
}

// c10Where names the region of the damaged byte (part of the fingerprint).
func c10Where(b *c10Base, p int) string {
	for i, r := range b.Recs {
		if p >= r.Off && p < r.End {
			f := "payload"
			switch {
			case p < r.Off+4:
				f = "crc"
			case p < r.Off+6:
				f = "length"
			case p == r.Off+6:
				f = "type"
			}
			last := ""
			if i == len(b.Recs)-1 {
				last = "last-"
			}
			return fmt.Sprintf("%srecord(type %d) %s", last, r.Type, f)
		}
	}
	return "end"
}

func init() {
	fw.Register(&fw.Check{
		ID:    "C10",
		Level: "fault_enumeration",
		Rule: "8 base logs (small entries, fragmented entry in the middle/at the end, batch in the middle/at the end, 2 and 3 files, key fragmentation): every truncation offset of the newest file and every single-byte overwrite x {^0x01,^0x80,0x00,0xFF,+1} (all positions for files <=4 KiB; record headers, +-16 around record boundaries and stride 251 otherwise). " +
			"Thorough tier: 5 more base logs (fragments that are exact multiples of the record size, two fragmented entries in a row, a 90 KB batch, a fragmented delete, four files), stride 3 instead of 251, and single-byte damage in every older file of the multi-file logs (entries of newer files are then optional, the files must survive). Oracle: ReplayWALDir delivers a subsequence of the appended entries (all four fields equal) that contains every entry completely written before the first damaged byte and all entries of older files; the engine opens, shows those entries, shows nothing that was not written, keeps the log files, accepts 2 writes and shows old+new after a clean close and a second recovery. Non-trivial = damage that falls before the end of some entry",
		Assumptions: []string{"single damage per log; record boundaries come from an independent parser of the original file"},
		Units: func(tier string) []string {
			var us []string
			names := sortedKeys(c10Bases)
			if tier == "thorough" {
				names = append(names, sortedKeys(c10BasesThorough)...)
			}
			for _, n := range names {
				nsh := 2
				if n == "frag-mid" || n == "three-files" || n == "bigkey" || n == "frag-last" {
					nsh = 4
				}
				if tier == "thorough" {
					nsh = 8
				}
				for s := 0; s < nsh; s++ {
					us = append(us, fmt.Sprintf("%s/trunc/%d/%d", n, s, nsh))
					us = append(us, fmt.Sprintf("%s/byte/%d/%d", n, s, nsh))
				}
				if tier == "thorough" {
					// single-byte damage in the older files of the multi-file logs
					files := map[string]int{"two-files": 1, "three-files": 2, "four-files": 3}[n]
					for k := 0; k < files; k++ {
						for s := 0; s < 4; s++ {
							us = append(us, fmt.Sprintf("%s/old%d/%d/4", n, k, s))
						}
					}
				}
			}
			return us
		},
		Run:    c10Unit,
		Replay: func(v *fw.Violation) string { b, _ := json.Marshal(v.Witness); return "re-run: kvcheck one C10 quick " + v.Unit + "\nwitness: " + string(b) },
		BudgetQuick: 110, BudgetThorough: 900,
	})
}
