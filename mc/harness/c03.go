package harness

import (
	"encoding/json"
	"fmt"
	"path/filepath"
	"strings"

	"github.com/KevoDB/kevo/pkg/zzverif/vsched"
	"verif/mc/explore"
	"verif/mc/fw"
)

// C03 — transactions are all-or-nothing.

func c03Bodies(maxLen int) [][]EngOp {
	// "scan" = open an iterator inside the transaction and compare it with the transaction's own view at that point
	base := []EngOp{{Kind: "put", Key: "a"}, {Kind: "put", Key: "b"}, {Kind: "del", Key: "a"}, {Kind: "del", Key: "b"}, {Kind: "scan"},
		{Kind: "put", Key: "b", Val: "<empty>"}, // an empty (non-nil) value is a value, not a deletion
		{Kind: "put", Key: "a", Val: "<same>"}} // writes the committed value of a back (after a delete or overwrite in the same body)
	var out [][]EngOp
	var rec func(cur []EngOp)
	rec = func(cur []EngOp) {
		if len(cur) > 0 {
			out = append(out, append([]EngOp{}, cur...))
		}
		if len(cur) == maxLen {
			return
		}
		for _, b := range base {
			rec(append(cur[:len(cur):len(cur)], b))
		}
	}
	rec(nil)
	return out
}

// part 1: programs
func c03ProgUnit(unit string, env *fw.Env) *fw.Result {
	res := fw.NewResult()
	var shard, nsh int
	fmt.Sscanf(unit, "bodies/%d/%d", &shard, &nsh)
	maxLen := 3
	if env.Thorough {
		maxLen = 4
	}
	bodies := c03Bodies(maxLen)
	dir := filepath.Join(fw.Scratch("c03"), "db")
	keys := []string{"a", "b", "c"}
	run := func(prog []EngOp, cfg string) {
		if env.Expired() {
			res.Exhaustive = false
			return
		}
		var problem string
		fw.Progress("c03 " + progString(prog))
		out, detail := runEngProg(dir, engCfgs[cfg], prog, func(r *EngRun, err error) {
			if err != nil {
				problem = "reopen-failed\n" + err.Error()
				return
			}
			if p := r.CheckGets(keys); p != "" {
				problem = p
				return
			}
			problem = r.CheckScan()
			// a failed commit must be reported as failed: errors of rollback/abandon kinds are unexpected
			for _, e := range r.Errs {
				if strings.Contains(e, "txclosed") {
					problem = "commit-on-closed-engine\n" + e
				}
			}
		})
		res.Evaluations++
		res.Transitions++
		res.Traces++
		res.States++
		res.Nontrivial++
		if out != vsched.OK {
			problem = out.String() + "\n" + detail
		}
		if problem != "" {
			res.Violate(fw.FP("C03", cfg, firstLine(problem), progString(prog)), fmt.Sprintf("[%s] %s: %s", cfg, progString(prog), problem), unit, map[string]any{"kind": "eng-prog", "cfg": cfg, "prog": prog, "problem": problem})
		}
	}
	i := 0
	for _, pre := range [][]EngOp{nil, {{Kind: "put", Key: "a"}, {Kind: "put", Key: "b"}}} {
		for _, kind := range []string{"txc", "txr", "txa"} {
			for _, body := range bodies {
				for _, suf := range [][]EngOp{nil, {{Kind: "reopen"}}, {{Kind: "put", Key: "c"}, {Kind: "reopen"}}} {
					i++
					if i%nsh != shard {
						continue
					}
					prog := append(append(append([]EngOp{}, pre...), EngOp{Kind: kind, Sub: body}), suf...)
					cfg := "big"
					if i%3 == 0 {
						cfg = "tiny"
					}
					run(prog, cfg)
					if len(res.Samples) < 2 && len(body) == maxLen {
						res.Sample(progString(prog))
					}
				}
			}
		}
	}
	if shard == 0 {
		// batch shapes and failing commits
		big := func(n int) EngOp { return EngOp{Kind: "put", Key: "a", Val: fmt.Sprintf("<big:%d>", n)} }
		shapes := [][]EngOp{
			{{Kind: "put", Key: "a"}},
			{{Kind: "put", Key: "a"}, {Kind: "put", Key: "b"}, {Kind: "put", Key: "c"}},
			{big(30 * 1024), {Kind: "put", Key: "b", Val: "<big:30720>"}, {Kind: "put", Key: "c", Val: "<big:30720>"}}, // beyond the 64 KiB log buffer
			{{Kind: "put", Key: "b"}, {Kind: "put", Key: "a", Val: "<big:40000>"}, {Kind: "del", Key: "c"}},               // one entry larger than a record: commit fails or applies completely
			{{Kind: "put", Key: "a", Val: "<empty>"}, {Kind: "del", Key: "b"}},
			// the same one byte beyond a record (17 + key + value = 32769) and exactly on it: the commit fails and
			// leaves nothing, or succeeds completely
			{{Kind: "put", Key: "a"}, {Kind: "put", Key: "b", Val: "<big:32751>"}, {Kind: "del", Key: "c"}},
			{{Kind: "put", Key: "a"}, {Kind: "put", Key: "b", Val: "<big:32750>"}, {Kind: "del", Key: "c"}},
		}
		for _, pre := range [][]EngOp{nil, {{Kind: "put", Key: "a"}, {Kind: "put", Key: "c"}}} {
			for _, sh := range shapes {
				for _, kind := range []string{"txc", "txr", "txclosed"} {
					for _, suf := range [][]EngOp{nil, {{Kind: "reopen"}}, {{Kind: "put", Key: "b"}, {Kind: "flush"}, {Kind: "reopen"}}} {
						for _, cfg := range []string{"big", "tiny", "bigN"} {
							prog := append(append(append([]EngOp{}, pre...), EngOp{Kind: kind, Sub: sh}), suf...)
							run(prog, cfg)
						}
					}
				}
			}
		}
	}
	return res
}

// part 2: crash points inside commit
func c03CrashUnit(unit string, env *fw.Env) *fw.Result {
	res := fw.NewResult()
	parts := strings.Split(unit, "/")
	cfg := parts[1]
	var idx int
	fmt.Sscanf(parts[2], "%d", &idx)
	txs := []EngOp{
		{Kind: "txc", Sub: []EngOp{{Kind: "put", Key: "a"}}},
		{Kind: "txc", Sub: []EngOp{{Kind: "put", Key: "a"}, {Kind: "put", Key: "b"}}},
		{Kind: "txc", Sub: []EngOp{{Kind: "del", Key: "a"}, {Kind: "put", Key: "b"}, {Kind: "put", Key: "c"}}},
		{Kind: "txc", Sub: []EngOp{{Kind: "put", Key: "a", Val: "<big:30720>"}, {Kind: "put", Key: "b", Val: "<big:30720>"}, {Kind: "put", Key: "c", Val: "<big:30720>"}}},
	}
	pres := [][]EngOp{nil, {{Kind: "put", Key: "a"}, {Kind: "put", Key: "b"}}, {{Kind: "put", Key: "a"}, {Kind: "flush"}, {Kind: "put", Key: "b"}}}
	sp := &c02Spec{Prop: "C03", Cfg: engCfgs[cfg], Depth: 0, Keys: []string{"a", "b", "c"}, Torn: true}
	n := 0
	for _, pre := range pres {
		for _, tx := range txs {
			n++
			if n%4 != idx {
				continue
			}
			prog := append(append([]EngOp{}, pre...), tx)
			sp.Depth = len(prog)
			c02Explore(sp, prog, env, unit, res)
			// crash inside the operation that follows a commit (the commit must stay whole)
			prog2 := append(append([]EngOp{}, prog...), EngOp{Kind: "put", Key: "b"})
			sp.Depth = len(prog2)
			c02Explore(sp, prog2, env, unit, res)
		}
	}
	return res
}

// part 3: schedules — a committer against readers
type c03Obs struct {
	R1, R2 [2]string // reader observations (k1 then k2 / k2 then k1)
	RO     [2]string // read-only transaction reading a then b
	Scan   string
	Err    string
}

func c03Scenarios() []*explore.Scenario {
	mk := func(name string, reader string) *explore.Scenario {
		return &explore.Scenario{
			Name:     name,
			MaxSteps: 2_000_000,
			Body: func() any {
				dir := filepath.Join(fw.ProcDir("c03s"), "db")
				obs := &c03Obs{}
				r, err := newEngRun(dir, engCfgs["big"])
				if err != nil {
					obs.Err = err.Error()
					return obs
				}
				defer r.Close()
				r.Eng.Put([]byte("a"), []byte("a0"))
				r.Eng.Put([]byte("b"), []byte("b0"))
				get := func(k string) string {
					v, err := r.Eng.Get([]byte(k))
					if err != nil {
						return "ERR:" + err.Error()
					}
					return string(v)
				}
				w := vsched.GoNamed("W", func() {
					tx, err := r.Eng.BeginTransaction(false)
					if err != nil {
						obs.Err = err.Error()
						return
					}
					tx.Put([]byte("a"), []byte("a1"))
					tx.Put([]byte("b"), []byte("b1"))
					if err := tx.Commit(); err != nil {
						obs.Err = "commit: " + err.Error()
					}
				})
				rd := vsched.GoNamed("R", func() {
					switch reader {
					case "get-ab":
						obs.R1[0] = get("a")
						obs.R1[1] = get("b")
					case "get-ba":
						obs.R2[0] = get("b")
						obs.R2[1] = get("a")
					case "rotx":
						tx, err := r.Eng.BeginTransaction(true)
						if err != nil {
							obs.Err = err.Error()
							return
						}
						va, _ := tx.Get([]byte("a"))
						vb, _ := tx.Get([]byte("b"))
						obs.RO = [2]string{string(va), string(vb)}
						tx.Commit()
					case "scan":
						it, err := r.Eng.GetIterator()
						if err != nil {
							obs.Err = err.Error()
							return
						}
						var s []string
						for it.SeekToFirst(); it.Valid(); it.Next() {
							s = append(s, string(it.Key())+"="+string(it.Value()))
						}
						obs.Scan = strings.Join(s, ",")
					}
				})
				vsched.Join(w)
				vsched.Join(rd)
				if obs.Err == "" && (get("a") != "a1" || get("b") != "b1") {
					obs.Err = "final state is not the committed state: a=" + get("a") + " b=" + get("b")
				}
				return obs
			},
			Check: func(s *vsched.Sched, o any) (string, string) {
				ob := o.(*c03Obs)
				key := fmt.Sprintf("%v|%v|%v|%s|%s", ob.R1, ob.R2, ob.RO, ob.Scan, ob.Err)
				if ob.Err != "" {
					return key, "operation-failed\n" + ob.Err
				}
				switch reader {
				case "get-ab":
					if ob.R1 == [2]string{"a1", "b0"} {
						return key, "partial-commit-visible\nGet(a) saw the transaction's write, the later Get(b) did not"
					}
				case "get-ba":
					if ob.R2 == [2]string{"b1", "a0"} {
						return key, "partial-commit-visible\nGet(b) saw the transaction's write, the later Get(a) did not"
					}
				case "rotx":
					if ob.RO != [2]string{"a0", "b0"} && ob.RO != [2]string{"a1", "b1"} {
						return key, fmt.Sprintf("partial-commit-visible\nread-only transaction read a=%s b=%s", ob.RO[0], ob.RO[1])
					}
				case "scan":
					if ob.Scan != "a=a0,b=b0" && ob.Scan != "a=a1,b=b1" {
						return key, "partial-commit-visible\nscan saw " + ob.Scan
					}
				}
				return key, ""
			},
		}
	}
	return []*explore.Scenario{mk("commit-vs-get-ab", "get-ab"), mk("commit-vs-get-ba", "get-ba"), mk("commit-vs-rotx", "rotx"), mk("commit-vs-scan", "scan")}
}

func init() {
	fw.Register(&fw.Check{
		ID:    "C03",
		Level: "model_checking",
		Rule: "(1) programs: every transaction body of <=3 (4 thorough) operations {put, delete of 2 keys, put of an empty value, put of the value a key already has in the committed state, scan inside the transaction} (repeats: last wins) x {commit, rollback, abandon} x 2 pre-states x {as is, reopen, write+reopen}, caller buffers overwritten after every tx.Put/Delete; batch shapes 1, 3, 3x30 KiB (beyond the log buffer), a batch with an entry larger than a record (must fail or apply completely), empty value, commit on a closed engine; oracle: gets + scan = model now and after reopen. " +
			"(2) crash points: every call-log prefix and torn write inside a commit of 1/2/3/3x30KiB entries (and inside the write that follows it), recovered state must hold all or none of the transaction. (3) schedules: committer vs Get(a);Get(b), Get(b);Get(a), a read-only transaction, a scan - all interleavings up to the deviation bound with happens-before caching; oracle: no observer sees a strict subset. Non-trivial = cases in which a transaction interacts with earlier state / cuts inside the commit / executions with a cross-thread conflict",
		Assumptions: []string{"process-death crash model", "SC interleavings of visible operations"},
		Units: func(tier string) []string {
			var us []string
			for i := 0; i < 8; i++ {
				us = append(us, fmt.Sprintf("bodies/%d/8", i))
			}
			for _, cfg := range []string{"big", "bigN"} {
				for i := 0; i < 4; i++ {
					us = append(us, fmt.Sprintf("crash/%s/%d", cfg, i))
				}
			}
			b := 2
			if tier == "thorough" {
				b = 3
			}
			for _, sc := range c03Scenarios() {
				us = append(us, shardUnits(sc.Name, b, 4)...)
			}
			us = append(us, raceUnits(c03Scenarios(), nil)...)
			return us
		},
		ExeFor: raceExe,
		Run: func(unit string, env *fw.Env) *fw.Result {
			switch {
			case strings.HasPrefix(unit, "bodies/"):
				return c03ProgUnit(unit, env)
			case strings.HasPrefix(unit, "crash/"):
				return c03CrashUnit(unit, env)
			}
			if strings.HasPrefix(unit, "race/") {
				return raceRun("C03", c03Scenarios(), unit, env)
			}
			sp := parseSched(unit)
			for _, sc := range c03Scenarios() {
				if sc.Name == sp.Name {
					return runSched("C03", sc, sp, env, 2)
				}
			}
			r := fw.NewResult()
			r.HarnessErr = "unknown unit " + unit
			return r
		},
		Replay: func(v *fw.Violation) string {
			w := v.Witness.(map[string]any)
			if w["kind"] == "schedule" {
				return replaySched(func(n string) *explore.Scenario {
					for _, sc := range c03Scenarios() {
						if sc.Name == n {
							return sc
						}
					}
					return nil
				}, v)
			}
			b, _ := json.Marshal(v.Witness)
			return "re-run: kvcheck one C03 quick " + v.Unit + "\nwitness: " + string(b)
		},
		BudgetQuick: 110, BudgetThorough: 900,
	})
}
