package harness

import (
	"bytes"
	"fmt"
	"sort"
	"strings"

	"github.com/KevoDB/kevo/pkg/memtable"
	"github.com/KevoDB/kevo/pkg/zzverif/vsched"
	"verif/mc/explore"
	"verif/mc/fw"
)

// C18 — the memtable is a correct ordered multi-version map under concurrent readers.

type mtOp struct {
	Key string
	Seq uint64
	Del bool
	Val string
}

func (o mtOp) String() string {
	if o.Del {
		return fmt.Sprintf("del(%s@%d)", o.Key, o.Seq)
	}
	return fmt.Sprintf("put(%s@%d=%s)", o.Key, o.Seq, o.Val)
}

func applyMT(mt *memtable.MemTable, o mtOp) {
	if o.Del {
		mt.Delete([]byte(o.Key), o.Seq)
	} else {
		mt.Put([]byte(o.Key), []byte(o.Val), o.Seq)
	}
}

type mtEntry struct {
	Key string
	Seq uint64
	Del bool
	Val string
}

func iterMT(mt *memtable.MemTable) []mtEntry {
	var out []mtEntry
	it := mt.NewIterator()
	n := 0
	for it.SeekToFirst(); it.Valid(); it.Next() {
		out = append(out, mtEntry{string(it.Key()), it.SequenceNumber(), it.IsTombstone(), string(it.Value())})
		if n++; n > 1000 {
			out = append(out, mtEntry{Key: "<<iteration does not terminate>>"})
			break
		}
	}
	return out
}

// checkMTSeq checks the sequential oracle for a table that received ops (in order).
func checkMTSeq(mt *memtable.MemTable, ops []mtOp, keys []string) string {
	for _, k := range keys {
		// acceptable results: any entry with the highest sequence number for k
		var max uint64
		found := false
		for _, o := range ops {
			if o.Key == k && (!found || o.Seq > max) {
				max, found = o.Seq, true
			}
		}
		v, ok := mt.Get([]byte(k))
		if !found {
			if ok {
				return fmt.Sprintf("get-phantom\nGet(%s) found %q but key was never inserted", k, v)
			}
			continue
		}
		if !ok {
			return fmt.Sprintf("get-missing\nGet(%s) not found; highest seq %d exists", k, max)
		}
		match := false
		for _, o := range ops {
			if o.Key == k && o.Seq == max {
				if o.Del && v == nil {
					match = true
				}
				if !o.Del && v != nil && string(v) == o.Val {
					match = true
				}
			}
		}
		if !match {
			return fmt.Sprintf("get-not-highest-seq\nGet(%s)=%q does not match any entry with highest seq %d", k, v, max)
		}
	}
	ents := iterMT(mt)
	if len(ents) != len(ops) {
		return fmt.Sprintf("iter-count\niteration yields %d entries, %d inserted: %v", len(ents), len(ops), ents)
	}
	for i := 1; i < len(ents); i++ {
		c := strings.Compare(ents[i-1].Key, ents[i].Key)
		if c > 0 || (c == 0 && ents[i-1].Seq < ents[i].Seq) {
			return fmt.Sprintf("iter-order\niteration not (key asc, seq desc): %v", ents)
		}
	}
	// equal sequence numbers on one key (a batch that writes a key twice is stamped once): the version inserted
	// later is the newer one - it comes first in the iteration and it is the one a lookup returns
	for i := 1; i < len(ents); i++ {
		if ents[i-1].Key == ents[i].Key && ents[i-1].Seq == ents[i].Seq {
			pos := func(e mtEntry, from int) int {
				for j := from; j < len(ops); j++ {
					if o := ops[j]; o.Key == e.Key && o.Seq == e.Seq && o.Del == e.Del && (o.Del || o.Val == e.Val) {
						return j
					}
				}
				return -1
			}
			// entries that are indistinguishable cannot be out of order
			if fmt.Sprint(ents[i-1]) != fmt.Sprint(ents[i]) {
				a, b := pos(ents[i-1], 0), pos(ents[i], 0)
				// the first yielded must have a later insertion than the second (use the last occurrence of the first)
				last := a
				for j := a; j >= 0; j = pos(ents[i-1], j+1) {
					last = j
				}
				if last < b {
					return fmt.Sprintf("iter-order-equal-seq\nversions of %s with equal sequence number %d are not yielded newest (inserted last) first: %v for inserts %v", ents[i].Key, ents[i].Seq, ents, ops)
				}
			}
		}
	}
	for _, k := range keys {
		for _, e := range ents {
			if e.Key == k {
				v, ok := mt.Get([]byte(k))
				if !ok || (e.Del && v != nil) || (!e.Del && (v == nil || string(v) != e.Val)) {
					return fmt.Sprintf("get-disagrees-with-iteration\nGet(%s) = %q (found=%v), but the newest version the table's own iteration yields for the key is %v (inserts %v)", k, v, ok, e, ops)
				}
				break
			}
		}
	}
	// multiset equality
	want := map[string]int{}
	for _, o := range ops {
		want[fmt.Sprint(mtEntry{o.Key, o.Seq, o.Del, o.Val})]++
	}
	for _, e := range ents {
		want[fmt.Sprint(e)]--
	}
	for k, n := range want {
		if n != 0 {
			return fmt.Sprintf("iter-content\niteration content differs at %s: %v", k, ents)
		}
	}
	// Seek
	it := mt.NewIterator()
	for _, t := range []string{"", "a", "aa", "b", "bb", "c"} {
		it.Seek([]byte(t))
		var wantK *string
		for _, e := range ents {
			if e.Key >= t {
				k := e.Key
				wantK = &k
				break
			}
		}
		if wantK == nil {
			if it.Valid() {
				return fmt.Sprintf("seek-past-end\nSeek(%q) valid at %q, expected invalid", t, it.Key())
			}
		} else if !it.Valid() || string(it.Key()) != *wantK {
			return fmt.Sprintf("seek-wrong\nSeek(%q) -> valid=%v key=%q, want %q", t, it.Valid(), it.Key(), *wantK)
		}
	}
	return ""
}

func c18SeqUnit(unit string, env *fw.Env) *fw.Result {
	res := fw.NewResult()
	keys := []string{"a", "b"}
	seqs := []uint64{1, 2, 2, 3, 1, 0}
	depth := 5
	if env.Thorough {
		depth = 6
	}
	// alphabet: key x seq-choice x {put,del}; seq index i uses seqs[i] -> non-monotone and repeated numbers
	type sym struct {
		k   int
		del bool
		s   int
	}
	var alpha []sym
	for k := range keys {
		for _, d := range []bool{false, true} {
			for s := 0; s < 4; s++ {
				alpha = append(alpha, sym{k, d, s})
			}
		}
	}
	// unit = index of the first symbol; enumerate all sequences of length <= depth starting with it
	first := 0
	sv := []uint64{1, 2, 2, 3}
	if strings.HasPrefix(unit, "seqw/") {
		// sequence numbers more than 2^63 apart (the log stamps up to 2^64 - 10^6)
		fmt.Sscanf(unit, "seqw/%d", &first)
		sv = []uint64{1, 2, 1<<63 + 5, ^uint64(0) - 2_000_000}
		depth--
	} else {
		fmt.Sscanf(unit, "seq/%d", &first)
	}
	seen := map[string]bool{}
	var rec func(prog []sym)
	rec = func(prog []sym) {
		if env.Expired() {
			res.Exhaustive = false
			return
		}
		// build
		mt := memtable.NewMemTable()
		var ops []mtOp
		_ = seqs
		for i, y := range prog {
			o := mtOp{Key: keys[y.k], Seq: sv[y.s], Del: y.del, Val: fmt.Sprintf("v%d", i)}
			if o.Del {
				o.Val = ""
			}
			ops = append(ops, o)
			applyMT(mt, o)
		}
		res.Evaluations++
		res.Transitions++
		key := fmt.Sprint(iterMT(mt))
		if !seen[key] {
			seen[key] = true
			res.States++
		}
		if len(prog) >= 2 {
			res.Nontrivial++ // at least two versions interact
		}
		if p := checkMTSeq(mt, ops, append(keys, "zz")); p != "" {
			res.Violate(fw.FP("C18", "seq", strings.SplitN(p, "\n", 2)[0], fmt.Sprint(ops)), "memtable sequential: "+p+" after "+fmt.Sprint(ops), unit, map[string]any{"kind": "mt-seq", "ops": ops})
			return
		}
		// immutable tables never change
		if len(prog) == depth {
			before := fmt.Sprint(iterMT(mt))
			mt.SetImmutable()
			mt.Put([]byte("a"), []byte("late"), 99)
			mt.Delete([]byte("b"), 98)
			if after := fmt.Sprint(iterMT(mt)); after != before {
				res.Violate(fw.FP("C18", "immutable-changed"), "immutable memtable changed after SetImmutable: "+before+" -> "+after, unit, map[string]any{"kind": "mt-seq", "ops": ops})
			}
			if len(res.Samples) < 2 {
				res.Sample(fmt.Sprint(ops))
			}
			return
		}
		for _, y := range alpha {
			rec(append(prog[:len(prog):len(prog)], y))
		}
	}
	rec([]sym{alpha[first]})
	res.Traces = res.Evaluations
	return res
}

// concurrent scenarios

type mtReaderObs struct {
	Started, Ended int // writer ops completed when the reader started / ended
	Did            string
	GetVal         string
	GetOK, GetNil  bool
	Iter           []mtEntry
	SeekKey        string
	SeekOK         bool
	Contains       bool
}

type mtConcObs struct {
	R     []*mtReaderObs
	Final []mtEntry
	Pre   []mtOp
	W     []mtOp
}

func highest(ops []mtOp, k string) (mtOp, bool) {
	var best mtOp
	found := false
	for _, o := range ops {
		if o.Key == k && (!found || o.Seq > best.Seq) {
			best, found = o, true
		}
	}
	return best, found
}

func checkMTConc(o *mtConcObs) string {
	all := append(append([]mtOp{}, o.Pre...), o.W...)
	inAll := func(e mtEntry) bool {
		for _, x := range all {
			if x.Key == e.Key && x.Seq == e.Seq && x.Del == e.Del && (x.Del || x.Val == e.Val) {
				return true
			}
		}
		return false
	}
	for ri, r := range o.R {
		for i, e := range r.Iter {
			if e.Key == "<<iteration does not terminate>>" {
				return "iter-nonterminating\nreader iteration does not terminate"
			}
			if !inAll(e) {
				return fmt.Sprintf("iter-fabricated\nreader %d saw entry %v that was never inserted", ri, e)
			}
			if i > 0 {
				p := r.Iter[i-1]
				if p.Key > e.Key || (p.Key == e.Key && p.Seq < e.Seq) {
					return fmt.Sprintf("iter-unsorted\nreader %d iteration not sorted: %v", ri, r.Iter)
				}
				if p == e {
					return fmt.Sprintf("iter-duplicate\nreader %d saw %v twice", ri, e)
				}
			}
		}
		before := append(append([]mtOp{}, o.Pre...), o.W[:r.Started]...)
		for _, x := range before {
			found := false
			for _, e := range r.Iter {
				if e.Key == x.Key && e.Seq == x.Seq {
					found = true
				}
			}
			if !found {
				return fmt.Sprintf("iter-missing-earlier-insert\nreader %d (started after %d writer ops) iteration %v lacks %v", ri, r.Started, r.Iter, x)
			}
		}
		if r.Did == "get" {
			ok := false
			for j := r.Started; j <= r.Ended; j++ {
				h, found := highest(append(append([]mtOp{}, o.Pre...), o.W[:j]...), "b")
				if !found && !r.GetOK {
					ok = true
				}
				if found && r.GetOK && ((h.Del && r.GetNil) || (!h.Del && !r.GetNil && r.GetVal == h.Val)) {
					ok = true
				}
			}
			if !ok {
				return fmt.Sprintf("get-not-linearizable\nreader %d Get(b)=(%q,ok=%v) matches no state between writer op %d and %d", ri, r.GetVal, r.GetOK, r.Started, r.Ended)
			}
		} else {
			if !r.SeekOK || r.SeekKey != "b" {
				return fmt.Sprintf("seek-wrong\nreader %d Seek(b) -> valid=%v key=%q; b exists throughout", ri, r.SeekOK, r.SeekKey)
			}
			_, aBefore := highest(before, "a")
			if aBefore && !r.Contains {
				return fmt.Sprintf("contains-missing\nreader %d Contains(a)=false although a was inserted before it started", ri)
			}
		}
	}
	for _, e := range o.Final {
		if e.Val == "late" {
			return "immutable-changed\na write after SetImmutable is visible"
		}
	}
	if len(o.Final) != len(all) {
		return fmt.Sprintf("final-content\nfinal table has %d entries, %d inserted: %v", len(o.Final), len(all), o.Final)
	}
	return ""
}

func c18Scenarios() []*explore.Scenario {
	mk := func(name string, pre []mtOp, w []mtOp, readers int, immutable bool) *explore.Scenario {
		return &explore.Scenario{
			Name: name,
			Body: func() any {
				mt := memtable.NewMemTable()
				for _, o := range pre {
					applyMT(mt, o)
				}
				done := 0
				obs := &mtConcObs{Pre: pre, W: w}
				wt := vsched.GoNamed("W", func() {
					for _, o := range w {
						applyMT(mt, o)
						done++
					}
					if immutable {
						mt.SetImmutable()
						mt.Put([]byte("a"), []byte("late"), 77)
					}
				})
				var rts []*vsched.Thread
				for r := 0; r < readers; r++ {
					r := r
					o := &mtReaderObs{}
					obs.R = append(obs.R, o)
					rts = append(rts, vsched.GoNamed(fmt.Sprintf("R%d", r), func() {
						o.Started = done
						if r == 0 {
							o.Did = "get"
							v, ok := mt.Get([]byte("b"))
							o.GetVal, o.GetOK, o.GetNil = string(v), ok, v == nil
							o.Ended = done
							o.Iter = iterMT(mt)
						} else {
							o.Did = "seek"
							it := mt.NewIterator()
							it.Seek([]byte("b"))
							o.SeekOK = it.Valid()
							if o.SeekOK {
								o.SeekKey = string(it.Key())
							}
							o.Contains = mt.Contains([]byte("a"))
							o.Ended = done
							o.Iter = iterMT(mt)
						}
					}))
				}
				vsched.Join(wt)
				for _, t := range rts {
					vsched.Join(t)
				}
				obs.Final = iterMT(mt)
				return obs
			},
			Check: func(s *vsched.Sched, o any) (string, string) {
				ob := o.(*mtConcObs)
				var k []string
				for _, r := range ob.R {
					k = append(k, fmt.Sprintf("%s:%s/%v/%s/%v %v", r.Did, r.GetVal, r.GetOK, r.SeekKey, r.Contains, r.Iter))
				}
				return strings.Join(k, " || "), checkMTConc(ob)
			},
		}
	}
	pre := []mtOp{{Key: "b", Seq: 1, Val: "p1"}}
	w3 := []mtOp{{Key: "a", Seq: 2, Val: "w1"}, {Key: "b", Seq: 3, Val: "w2"}, {Key: "b", Seq: 2, Del: true}}
	return []*explore.Scenario{
		mk("mt-1w1r", pre, w3, 1, false),
		mk("mt-1w2r", pre, w3[:2], 2, false),
		mk("mt-1w1r-immutable", pre, w3[:2], 1, true),
	}
}

func init() {
	fw.Register(&fw.Check{
		ID:    "C18",
		Level: "model_checking",
		Rule: "sequential: every insert/delete sequence up to the depth over 2 keys x sequence numbers {1,2,2,3} (non-monotone, repeated; among versions of a key with equal sequence number the one inserted last is the newest: first in the iteration, and the one Get returns), and one level shallower over {1, 2, 2^63+5, 2^64-2000001} (versions more than 2^63 apart); a case is non-trivial when >=2 versions interact; " +
			"concurrent: every interleaving (atomics, locks as scheduling points) of 1 writer with 1-2 readers, unbounded with happens-before caching or deviation-bounded; non-trivial = executions with a cross-thread conflict on a shared object",
		Assumptions: []string{"sequentially consistent interleavings of visible operations (locks, atomics); data-race freedom is C07's subject", "values outside the alphabet are not covered"},
		Units: func(tier string) []string {
			var us []string
			for i := 0; i < 16; i++ {
				us = append(us, fmt.Sprintf("seq/%d", i))
			}
			for i := 0; i < 16; i++ {
				us = append(us, fmt.Sprintf("seqw/%d", i))
			}
			n := 4
			us = append(us, shardUnits("mt-1w1r", -1, n)...)
			if tier == "thorough" {
				us = append(us, shardUnits("mt-1w2r", -1, 16)...)
			} else {
				us = append(us, shardUnits("mt-1w2r", 3, 8)...)
			}
			us = append(us, shardUnits("mt-1w1r-immutable", -1, n)...)
			us = append(us, raceUnits(c18Scenarios(), nil)...)
			return us
		},
		ExeFor: raceExe,
		Run: func(unit string, env *fw.Env) *fw.Result {
			if strings.HasPrefix(unit, "seq/") || strings.HasPrefix(unit, "seqw/") {
				return c18SeqUnit(unit, env)
			}
			if strings.HasPrefix(unit, "race/") {
				return raceRun("C18", c18Scenarios(), unit, env)
			}
			sp := parseSched(unit)
			for _, sc := range c18Scenarios() {
				if sc.Name == sp.Name {
					return runSched("C18", sc, sp, env, 2)
				}
			}
			r := fw.NewResult()
			r.HarnessErr = "unknown unit " + unit
			return r
		},
		Replay: func(v *fw.Violation) string {
			w := v.Witness.(map[string]any)
			if w["kind"] == "schedule" {
				return replaySched(func(n string) *explore.Scenario {
					for _, sc := range c18Scenarios() {
						if sc.Name == n {
							return sc
						}
					}
					return nil
				}, v)
			}
			return fmt.Sprintf("sequential witness: %v (re-run: kvcheck one C18 quick %s)", w["ops"], v.Unit)
		},
		BudgetQuick: 100, BudgetThorough: 600,
	})
	_ = bytes.Compare
	_ = sort.Strings
}
