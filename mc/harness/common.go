// Package harness holds the per-property drivers and oracles.
package harness

import (
	"fmt"
	"strconv"
	"strings"
	"time"

	"github.com/KevoDB/kevo/pkg/zzverif/vsched"
	"verif/mc/explore"
	"verif/mc/fw"
)

// schedUnit describes one exploration unit "name/bound/shard/nshards".
type schedSpec struct {
	Name    string
	Bound   int
	Shard   int
	NShards int
}

func (s schedSpec) String() string {
	return fmt.Sprintf("%s/%d/%d/%d", s.Name, s.Bound, s.Shard, s.NShards)
}

func parseSched(u string) schedSpec {
	p := strings.Split(u, "/")
	b, _ := strconv.Atoi(p[1])
	sh, _ := strconv.Atoi(p[2])
	n, _ := strconv.Atoi(p[3])
	return schedSpec{p[0], b, sh, n}
}

func shardUnits(name string, bound, n int) []string {
	var us []string
	for i := 0; i < n; i++ {
		us = append(us, schedSpec{name, bound, i, n}.String())
	}
	return us
}

func init() {
	vsched.OnRun = fw.Alive
}

// runSched explores a scenario shard and converts the statistics.
// The first line of a problem string is its class (fingerprint); details follow.
func runSched(prop string, sc *explore.Scenario, sp schedSpec, env *fw.Env, wantOutcomes int) *fw.Result {
	res := fw.NewResult()
	explore.Beat = func(name string, prefix []int) {
		fw.Beat(func() string { return fmt.Sprintf("scenario %s schedule prefix %v", name, prefix) })
	}
	st := explore.Explore(sc, explore.Options{Bound: sp.Bound, Cache: true, Deadline: env.Deadline, Shard: sp.Shard, NShards: sp.NShards})
	res.Evaluations = st.Executions
	res.Traces = st.Complete
	res.States = st.States
	if res.States == 0 {
		res.States = st.Complete
	}
	res.Transitions = st.Steps
	res.Nontrivial = st.Conflicts
	res.Exhaustive = st.Exhaustive
	res.Unstable = st.Unstable
	if !st.Exhaustive {
		res.Caps = append(res.Caps, fmt.Sprintf("%s: deadline hit at bound %d after %d executions", sp.String(), sp.Bound, st.Executions))
	}
	res.Count("decision_points", st.Points)
	res.Count("cut_by_hb_cache", st.Cached)
	res.Count("skipped_by_post_state_prediction", st.Skipped)
	res.Count("distinct_outcomes:"+sc.Name, len(st.Outcomes))
	if sp.Shard == 0 {
		res.Sample(map[string]any{"scenario": sc.Name, "bound": sp.Bound, "outcomes": st.Outcomes, "trace_excerpt": head(st.Sample, 24)})
		if !st.ReplayOK {
			res.HarnessErr = "replay self-check failed for " + sc.Name + " (uncaptured nondeterminism)"
		}
	}
	for _, v := range st.Violations {
		class := strings.SplitN(v.Problem, "\n", 2)[0]
		res.Violate(fw.FP(prop, sc.Name, class), sc.Name+": "+v.Problem, sp.String(),
			map[string]any{"kind": "schedule", "scenario": sc.Name, "choices": v.Choices, "deviations": v.Cost, "problem": v.Problem, "trace_tail": tailS(v.Trace, 80)})
	}
	return res
}

// raceSched runs a scenario body free-running (no scheduler: the shims pass through to the real primitives) in the
// -race build. The controlled exploration only interleaves at synchronisation operations, which is sufficient
// provided there are no unsynchronised accesses; this pass is what looks for those. Reports are collected by the
// framework from the detector's log; here only panics and hangs are turned into violations.
func raceSched(prop string, sc *explore.Scenario, env *fw.Env, unit string) *fw.Result {
	res := fw.NewResult()
	iters := 8
	if env.Thorough {
		iters = 100
	}
	for it := 0; it < iters && !env.Expired(); it++ {
		fw.Progress(fmt.Sprintf("free-running race pass, scenario %s iteration %d", sc.Name, it))
		done := make(chan string, 1)
		go func() {
			defer func() {
				if r := recover(); r != nil {
					done <- fmt.Sprint("panic: ", r)
				}
			}()
			sc.Body()
			done <- ""
		}()
		select {
		case p := <-done:
			if p != "" {
				res.Violate(fw.FP(prop, "race-pass-panic", sc.Name, firstLine(p)), sc.Name+" (free-running): "+p, unit, map[string]any{"kind": "race-pass", "scenario": sc.Name})
				return res
			}
		case <-time.After(90 * time.Second):
			res.Violate(fw.FP(prop, "race-pass-hang", sc.Name), sc.Name+" (free-running) did not finish within 90 s", unit, map[string]any{"kind": "race-pass", "scenario": sc.Name})
			return res
		}
		res.Evaluations++
		res.Count("free_running_iterations", 1)
	}
	res.Nontrivial = res.Evaluations
	return res
}

// raceUnits / raceRun: helpers for checks that add a free-running race pass over (some of) their scenarios.
func raceUnits(scs []*explore.Scenario, only func(name string) bool) []string {
	var us []string
	for _, sc := range scs {
		if only == nil || only(sc.Name) {
			us = append(us, "race/"+sc.Name)
		}
	}
	return us
}

func raceRun(prop string, scs []*explore.Scenario, unit string, env *fw.Env) *fw.Result {
	name := strings.TrimPrefix(unit, "race/")
	for _, sc := range scs {
		if sc.Name == name {
			return raceSched(prop, sc, env, unit)
		}
	}
	r := fw.NewResult()
	r.HarnessErr = "unknown race unit " + unit
	return r
}

func raceExe(unit string) string {
	if strings.HasPrefix(unit, "race/") {
		return "-race"
	}
	return ""
}

func head(s []string, n int) []string {
	if len(s) > n {
		return s[:n]
	}
	return s
}
func tailS(s []string, n int) []string {
	if len(s) > n {
		return s[len(s)-n:]
	}
	return s
}

// replaySched re-executes a schedule witness.
func replaySched(find func(name string) *explore.Scenario, v *fw.Violation) string {
	w := v.Witness.(map[string]any)
	sc := find(w["scenario"].(string))
	if sc == nil {
		return "unknown scenario"
	}
	var choices []int
	for _, c := range w["choices"].([]any) {
		choices = append(choices, int(c.(float64)))
	}
	s, obs := explore.RunOnce(sc, choices, -1, nil, true)
	out := fmt.Sprintf("scenario %s choices %v\noutcome: %s %s\n", sc.Name, choices, s.Out, s.Detail)
	if s.Out == vsched.OK {
		k, p := sc.Check(s, obs)
		out += fmt.Sprintf("observed: %s\nproblem: %s\n", k, p)
	}
	out += "trace:\n  " + strings.Join(s.Trace, "\n  ")
	return out
}

func deadlineIn(d time.Duration) time.Time { return time.Now().Add(d) }

func sortStrings(s []string) {
	for i := 1; i < len(s); i++ {
		for j := i; j > 0 && s[j-1] > s[j]; j-- {
			s[j-1], s[j] = s[j], s[j-1]
		}
	}
}
