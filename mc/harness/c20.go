package harness

import (
	"bytes"
	"encoding/json"
	"errors"
	"fmt"
	"os"
	"path/filepath"
	"reflect"
	"strings"

	"github.com/KevoDB/kevo/pkg/config"
	"github.com/KevoDB/kevo/pkg/engine"
	"github.com/KevoDB/kevo/pkg/zzverif/vos"
	"verif/mc/fw"
)

// C20 — configuration is validated and persists with the database.

// The constraint table is written here independently of Validate (from the documented messages).
type c20Field struct {
	Name   string
	Values []any // boundary values and a typical one
	Valid  func(c *config.Config) bool
	Set    func(c *config.Config, v any)
}

func c20Fields() []c20Field {
	i64 := func(name string, get func(c *config.Config) *int64) c20Field {
		return c20Field{Name: name, Values: []any{int64(-1), int64(0), int64(1), int64(4096)},
			Valid: func(c *config.Config) bool { return *get(c) > 0 },
			Set:   func(c *config.Config, v any) { *get(c) = v.(int64) }}
	}
	in := func(name string, get func(c *config.Config) *int) c20Field {
		return c20Field{Name: name, Values: []any{-1, 0, 1, 7},
			Valid: func(c *config.Config) bool { return *get(c) > 0 },
			Set:   func(c *config.Config, v any) { *get(c) = v.(int) }}
	}
	return []c20Field{
		in("Version", func(c *config.Config) *int { return &c.Version }),
		{Name: "WALDir", Values: []any{"", "w", "/"}, Valid: func(c *config.Config) bool { return c.WALDir != "" }, Set: func(c *config.Config, v any) {
			if v.(string) == "" {
				c.WALDir = ""
			}
			if v.(string) == "/" {
				c.WALDir += "/" // a valid directory string that is not in canonical form
			}
		}},
		{Name: "SSTDir", Values: []any{"", "s", "/"}, Valid: func(c *config.Config) bool { return c.SSTDir != "" }, Set: func(c *config.Config, v any) {
			if v.(string) == "" {
				c.SSTDir = ""
			}
			if v.(string) == "/" {
				c.SSTDir = filepath.Dir(c.SSTDir) + "/./" + filepath.Base(c.SSTDir)
			}
		}},
		i64("MemTableSize", func(c *config.Config) *int64 { return &c.MemTableSize }),
		in("MaxMemTables", func(c *config.Config) *int { return &c.MaxMemTables }),
		in("SSTableBlockSize", func(c *config.Config) *int { return &c.SSTableBlockSize }),
		in("SSTableIndexSize", func(c *config.Config) *int { return &c.SSTableIndexSize }),
		in("CompactionLevels", func(c *config.Config) *int { return &c.CompactionLevels }),
		{Name: "CompactionRatio", Values: []any{0.5, 1.0, 1.0000001, 10.0}, Valid: func(c *config.Config) bool { return c.CompactionRatio > 1.0 },
			Set: func(c *config.Config, v any) { c.CompactionRatio = v.(float64) }},
		i64("ReadOnlyTxTTL", func(c *config.Config) *int64 { return &c.ReadOnlyTxTTL }),
		i64("ReadWriteTxTTL", func(c *config.Config) *int64 { return &c.ReadWriteTxTTL }),
		i64("IdleTxTimeout", func(c *config.Config) *int64 { return &c.IdleTxTimeout }),
		i64("TxCleanupInterval", func(c *config.Config) *int64 { return &c.TxCleanupInterval }),
		{Name: "TxWarningThreshold", Values: []any{0, 1, 50, 98, 99, 100}, Valid: func(c *config.Config) bool { return c.TxWarningThreshold >= 1 && c.TxWarningThreshold <= 99 },
			Set: func(c *config.Config, v any) { c.TxWarningThreshold = v.(int) }},
		{Name: "TxCriticalThreshold", Values: []any{1, 2, 50, 51, 99, 100}, Valid: func(c *config.Config) bool {
			return c.TxCriticalThreshold > c.TxWarningThreshold && c.TxCriticalThreshold <= 99
		}, Set: func(c *config.Config, v any) { c.TxCriticalThreshold = v.(int) }},
	}
}

func c20Bases(dir string) []*config.Config {
	a := config.NewDefaultConfig(dir)
	b := config.NewDefaultConfig(dir)
	b.WALDir = filepath.Join(dir, "custom-wal")
	b.SSTDir = filepath.Join(dir, "custom-sst")
	b.MemTableSize = 1
	b.MaxMemTables = 1
	b.WALSyncMode = config.SyncNone
	b.WALSyncBytes = 0
	b.CompactionRatio = 1.5
	b.TxWarningThreshold, b.TxCriticalThreshold = 1, 2
	b.ReadOnlyTxTTL, b.ReadWriteTxTTL, b.IdleTxTimeout, b.TxCleanupInterval = 1, 1, 1, 1
	c := config.NewDefaultConfig(dir)
	c.MemTableSize = 1 << 40
	c.MaxMemTables = 1000
	c.SSTableBlockSize, c.SSTableIndexSize, c.CompactionLevels = 1, 1, 1
	c.TxWarningThreshold, c.TxCriticalThreshold = 98, 99
	c.WALSyncMode = config.SyncBatch
	c.SSTableMaxSize = 1
	c.CompactionInterval = 0
	c.MaxLevelWithTombstones = 0
	return []*config.Config{a, b, c}
}

func cloneCfg(c *config.Config) *config.Config {
	b, _ := json.Marshal(c)
	var n config.Config
	json.Unmarshal(b, &n)
	return &n
}

func cfgEqual(a, b *config.Config) bool {
	x, _ := json.Marshal(a)
	y, _ := json.Marshal(b)
	return string(x) == string(y)
}

func c20Expected(c *config.Config, fields []c20Field) bool {
	for _, f := range fields {
		if !f.Valid(c) {
			return false
		}
	}
	return true
}

// c20EvalCfg checks one configuration: accept <=> table; rejected => nothing written; accepted => round trip.
func c20EvalCfg(root string, c *config.Config, fields []c20Field, desc string) string {
	dir := filepath.Join(root, "cfg")
	os.RemoveAll(dir)
	want := c20Expected(c, fields)
	verr := c.Validate()
	if (verr == nil) != want {
		return fmt.Sprintf("validate-disagrees\n%s: Validate()=%v, documented constraints say valid=%v", desc, verr, want)
	}
	vos.StartRecording(dir)
	serr := c.SaveManifest(dir)
	log := vos.StopRecording()
	if !want {
		if serr == nil {
			return fmt.Sprintf("invalid-config-saved\n%s: SaveManifest accepted a configuration violating a documented constraint", desc)
		}
		if len(log) > 0 {
			return fmt.Sprintf("rejected-config-wrote\n%s: SaveManifest rejected the configuration but performed %d file-system calls (first %s)", desc, len(log), describeOp(log[0]))
		}
		if _, err := os.Stat(dir); err == nil {
			return fmt.Sprintf("rejected-config-wrote\n%s: SaveManifest rejected the configuration but created %s", desc, dir)
		}
		return c20EvalManifestObject(root, c, want, desc)
	}
	if serr != nil {
		return fmt.Sprintf("valid-config-rejected\n%s: SaveManifest failed with %v", desc, serr)
	}
	got, lerr := config.LoadConfigFromManifest(dir)
	if lerr != nil {
		return fmt.Sprintf("stored-config-unloadable\n%s: LoadConfigFromManifest failed with %v", desc, lerr)
	}
	if !cfgEqual(got, c) {
		a, _ := json.Marshal(c)
		b, _ := json.Marshal(got)
		return fmt.Sprintf("round-trip-differs\n%s: stored %s loaded %s", desc, a, b)
	}
	return c20EvalManifestObject(root, c, want, desc)
}

// c20EvalManifestObject: the same rule through the package's manifest object (NewManifest / UpdateConfig / Save /
// LoadManifest): an update to a valid configuration is stored and loaded back unchanged, an update violating a
// constraint is refused and the stored configuration stays the one the manifest was created with.
func c20EvalManifestObject(root string, c *config.Config, want bool, desc string) string {
	dir := filepath.Join(root, "mf")
	os.RemoveAll(dir)
	base := config.NewDefaultConfig(dir)
	m, err := config.NewManifest(dir, base)
	if err != nil {
		return fmt.Sprintf("valid-config-rejected\nNewManifest with the default configuration failed: %v", err)
	}
	if err := m.Save(); err != nil {
		return fmt.Sprintf("valid-config-rejected\nManifest.Save of the default configuration failed: %v", err)
	}
	raw, _ := json.Marshal(c)
	uerr := m.UpdateConfig(func(x *config.Config) { json.Unmarshal(raw, x) })
	serr := m.Save()
	l, lerr := config.LoadManifest(dir)
	if !want {
		if uerr == nil {
			return fmt.Sprintf("invalid-config-saved\n%s: Manifest.UpdateConfig accepted a configuration violating a documented constraint (Save then returned %v)", desc, serr)
		}
		if lerr != nil {
			return fmt.Sprintf("stored-config-unloadable\n%s: after a refused update LoadManifest failed with %v", desc, lerr)
		}
		if !cfgEqual(l.GetConfig(), base) {
			b, _ := json.Marshal(l.GetConfig())
			return fmt.Sprintf("rejected-config-wrote\n%s: after a refused update the stored configuration is %s, not the one the manifest was created with", desc, b)
		}
		if _, nerr := config.NewManifest(filepath.Join(root, "mf2"), c); nerr == nil {
			return fmt.Sprintf("invalid-config-saved\n%s: NewManifest accepted a configuration violating a documented constraint", desc)
		}
		return ""
	}
	if uerr != nil || serr != nil {
		return fmt.Sprintf("valid-config-rejected\n%s: Manifest.UpdateConfig=%v Save=%v", desc, uerr, serr)
	}
	if lerr != nil {
		return fmt.Sprintf("stored-config-unloadable\n%s: LoadManifest failed with %v", desc, lerr)
	}
	if !cfgEqual(l.GetConfig(), c) {
		a, _ := json.Marshal(c)
		b, _ := json.Marshal(l.GetConfig())
		return fmt.Sprintf("round-trip-differs\n%s: Manifest.UpdateConfig+Save stored %s, LoadManifest returns %s", desc, a, b)
	}
	return ""
}

func c20ValidateUnit(unit string, env *fw.Env) *fw.Result {
	res := fw.NewResult()
	root := fw.Scratch("c20")
	defer os.RemoveAll(root)
	fields := c20Fields()
	eval := func(c *config.Config, desc string) {
		res.Evaluations++
		if !c20Expected(c, fields) {
			res.Nontrivial++
		}
		if p := c20EvalCfg(root, c, fields, desc); p != "" {
			res.Violate(fw.FP("C20", firstLine(p), desc), p, unit, map[string]any{"kind": "config", "desc": desc})
		}
	}
	for bi, base := range c20Bases(filepath.Join(root, "cfg")) {
		eval(cloneCfg(base), fmt.Sprintf("base%d", bi))
		// single-field deviations
		for _, f := range fields {
			for _, v := range f.Values {
				c := cloneCfg(base)
				f.Set(c, v)
				eval(c, fmt.Sprintf("base%d %s=%v", bi, f.Name, v))
			}
		}
		// all pairs of fields at all their values
		for i := range fields {
			for j := i + 1; j < len(fields); j++ {
				for _, vi := range fields[i].Values {
					for _, vj := range fields[j].Values {
						c := cloneCfg(base)
						fields[i].Set(c, vi)
						fields[j].Set(c, vj)
						eval(c, fmt.Sprintf("base%d %s=%v %s=%v", bi, fields[i].Name, vi, fields[j].Name, vj))
					}
				}
			}
		}
		// full product of the interdependent pair
		for w := -1; w <= 101; w++ {
			for cr := -1; cr <= 101; cr++ {
				c := cloneCfg(base)
				c.TxWarningThreshold, c.TxCriticalThreshold = w, cr
				eval(c, fmt.Sprintf("base%d warning=%d critical=%d", bi, w, cr))
			}
		}
	}
	res.Sample(map[string]any{"fields": len(fields), "bases": 3})
	return res
}

// a save into a directory that still holds the temporary file of an earlier, interrupted save (longer, shorter, or
// exactly as long as the new manifest; junk or a whole other configuration): stored and loaded back unchanged
func c20StaleTempUnit(unit string, env *fw.Env) *fw.Result {
	res := fw.NewResult()
	root := fw.Scratch("c20s")
	defer os.RemoveAll(root)
	bases := c20Bases(filepath.Join(root, "cfg"))
	for bi, base := range bases {
		probe := filepath.Join(root, "probe")
		os.RemoveAll(probe)
		if err := base.SaveManifest(probe); err != nil {
			res.HarnessErr = "probe save: " + err.Error()
			return res
		}
		good, _ := os.ReadFile(filepath.Join(probe, "MANIFEST"))
		other := cloneCfg(bases[(bi+1)%len(bases)])
		other.WALDir += strings.Repeat("/longer-directory-name", 8)
		otherDir := filepath.Join(root, "other")
		os.RemoveAll(otherDir)
		other.SaveManifest(otherDir)
		otherJSON, _ := os.ReadFile(filepath.Join(otherDir, "MANIFEST"))
		stale := map[string][]byte{
			"junk-longer":       bytes.Repeat([]byte("\"stale\": 1,\n"), 400),
			"junk-shorter":      []byte("{\"x\":"),
			"junk-same-length":  bytes.Repeat([]byte("#"), len(good)),
			"other-config":      otherJSON,
			"same-plus-one":     append(append([]byte{}, good...), '}'),
		}
		for name, data := range stale {
			dir := filepath.Join(root, "cfg")
			os.RemoveAll(dir)
			os.MkdirAll(dir, 0755)
			os.WriteFile(filepath.Join(dir, "MANIFEST.tmp"), data, 0644)
			res.Evaluations++
			res.Nontrivial++
			desc := fmt.Sprintf("base%d over a stale temporary file (%s, %d bytes)", bi, name, len(data))
			if err := base.SaveManifest(dir); err != nil {
				res.Violate(fw.FP("C20", "valid-config-rejected", desc), "valid-config-rejected\n"+desc+": SaveManifest failed with "+err.Error(), unit, map[string]any{"kind": "config", "desc": desc})
				continue
			}
			got, err := config.LoadConfigFromManifest(dir)
			if err != nil {
				res.Violate(fw.FP("C20", "stored-config-unloadable", name), "stored-config-unloadable\n"+desc+": SaveManifest succeeded, LoadConfigFromManifest fails with "+err.Error(), unit, map[string]any{"kind": "config", "desc": desc})
				continue
			}
			if !cfgEqual(got, base) {
				res.Violate(fw.FP("C20", "round-trip-differs", name), "round-trip-differs\n"+desc, unit, map[string]any{"kind": "config", "desc": desc})
			}
		}
	}
	return res
}

// thorough tier: every triple of constrained fields at all their values (sharded by the first field)
func c20TriplesUnit(unit string, env *fw.Env) *fw.Result {
	res := fw.NewResult()
	root := fw.Scratch("c20t")
	defer os.RemoveAll(root)
	var shard, nsh int
	fmt.Sscanf(strings.TrimPrefix(unit, "validate-triples/"), "%d/%d", &shard, &nsh)
	fields := c20Fields()
	base := c20Bases(filepath.Join(root, "cfg"))[0]
	n := 0
	for i := range fields {
		for j := i + 1; j < len(fields); j++ {
			for k := j + 1; k < len(fields); k++ {
				n++
				if n%nsh != shard {
					continue
				}
				if env.Expired() {
					res.Exhaustive = false
					res.Caps = append(res.Caps, unit+": deadline")
					return res
				}
				fw.Progress(fmt.Sprintf("c20 triple %s %s %s", fields[i].Name, fields[j].Name, fields[k].Name))
				for _, vi := range fields[i].Values {
					for _, vj := range fields[j].Values {
						for _, vk := range fields[k].Values {
							c := cloneCfg(base)
							fields[i].Set(c, vi)
							fields[j].Set(c, vj)
							fields[k].Set(c, vk)
							desc := fmt.Sprintf("%s=%v %s=%v %s=%v", fields[i].Name, vi, fields[j].Name, vj, fields[k].Name, vk)
							res.Evaluations++
							if !c20Expected(c, fields) {
								res.Nontrivial++
							}
							if p := c20EvalCfg(root, c, fields, desc); p != "" {
								res.Violate(fw.FP("C20", firstLine(p), desc), p, unit, map[string]any{"kind": "config", "desc": desc})
							}
						}
					}
				}
			}
		}
	}
	return res
}

// thorough tier: the fields without a documented constraint take extreme values one at a time and in pairs; the
// configuration stays valid and must be stored and loaded back unchanged
func c20ExtremesUnit(unit string, env *fw.Env) *fw.Result {
	res := fw.NewResult()
	root := fw.Scratch("c20x")
	defer os.RemoveAll(root)
	fields := c20Fields()
	type setter struct {
		name string
		set  func(c *config.Config, i int)
		n    int
	}
	i64s := []int64{-1 << 63, -1, 0, 1, 1<<31 - 1, 1 << 31, 1<<53 + 1, 1<<63 - 1}
	ints := []int{-1 << 31, -1, 0, 1, 1<<31 - 1}
	i64f := func(name string, get func(c *config.Config) *int64) setter {
		return setter{name, func(c *config.Config, i int) { *get(c) = i64s[i] }, len(i64s)}
	}
	intf := func(name string, get func(c *config.Config) *int) setter {
		return setter{name, func(c *config.Config, i int) { *get(c) = ints[i] }, len(ints)}
	}
	free := []setter{
		i64f("WALSyncBytes", func(c *config.Config) *int64 { return &c.WALSyncBytes }),
		i64f("WALMaxSize", func(c *config.Config) *int64 { return &c.WALMaxSize }),
		i64f("MaxMemTableAge", func(c *config.Config) *int64 { return &c.MaxMemTableAge }),
		intf("MemTablePoolCap", func(c *config.Config) *int { return &c.MemTablePoolCap }),
		i64f("SSTableMaxSize", func(c *config.Config) *int64 { return &c.SSTableMaxSize }),
		intf("SSTableRestartSize", func(c *config.Config) *int { return &c.SSTableRestartSize }),
		intf("CompactionThreads", func(c *config.Config) *int { return &c.CompactionThreads }),
		i64f("CompactionInterval", func(c *config.Config) *int64 { return &c.CompactionInterval }),
		intf("MaxLevelWithTombstones", func(c *config.Config) *int { return &c.MaxLevelWithTombstones }),
		{"WALSyncMode", func(c *config.Config, i int) { c.WALSyncMode = config.SyncMode([]int{-1, 0, 1, 2, 3, 255}[i]) }, 6},
		{"WALDir", func(c *config.Config, i int) { c.WALDir = []string{"w", "a b/\u00e9\"q", strings.Repeat("d", 3000)}[i] }, 3},
		{"SSTDir", func(c *config.Config, i int) { c.SSTDir = []string{"s", "\t\n<>&", strings.Repeat("s", 3000)}[i] }, 3},
		// constrained fields at the far end of their valid range
		i64f("MemTableSize+", func(c *config.Config) *int64 { return &c.MemTableSize }),
		i64f("ReadOnlyTxTTL+", func(c *config.Config) *int64 { return &c.ReadOnlyTxTTL }),
	}
	base := c20Bases(filepath.Join(root, "cfg"))[0]
	eval := func(c *config.Config, desc string) {
		res.Evaluations++
		res.Nontrivial++
		if p := c20EvalCfg(root, c, fields, desc); p != "" {
			res.Violate(fw.FP("C20", firstLine(p), desc), p, unit, map[string]any{"kind": "config", "desc": desc})
		}
	}
	for a := range free {
		for i := 0; i < free[a].n; i++ {
			c := cloneCfg(base)
			free[a].set(c, i)
			eval(c, fmt.Sprintf("%s#%d", free[a].name, i))
			for b := a + 1; b < len(free); b++ {
				for j := 0; j < free[b].n; j++ {
					c := cloneCfg(base)
					free[a].set(c, i)
					free[b].set(c, j)
					fw.Progress(fmt.Sprintf("c20 extremes %s#%d %s#%d", free[a].name, i, free[b].name, j))
					eval(c, fmt.Sprintf("%s#%d %s#%d", free[a].name, i, free[b].name, j))
				}
			}
		}
	}
	return res
}

// JSON names of the settings with a documented constraint (a zero / absent value violates it)
var c20RequiredKeys = []string{"version", "wal_dir", "sst_dir", "memtable_size", "max_memtables", "sstable_block_size", "sstable_index_size",
	"compaction_levels", "compaction_ratio", "read_only_tx_ttl", "read_write_tx_ttl", "idle_tx_timeout", "tx_cleanup_interval",
	"tx_warning_threshold", "tx_critical_threshold"}

// opening with stored / damaged manifests over existing data
func c20OpenUnit(unit string, env *fw.Env) *fw.Result {
	res := fw.NewResult()
	root := fw.Scratch("c20o")
	defer os.RemoveAll(root)
	dir := filepath.Join(root, "db")
	viol := func(class, detail string, w map[string]any) {
		w["kind"] = "manifest"
		res.Violate(fw.FP("C20", class, fmt.Sprint(w["case"])), class+"\n"+detail, unit, w)
	}
	// a database created with a non-default configuration (every field differs from the default)
	orig := c20Bases(dir)[1]
	orig.SSTableBlockSize, orig.SSTableIndexSize, orig.CompactionLevels = 1234, 2345, 5
	orig.MaxMemTables = 3
	orig.MemTableSize = 4321
	os.MkdirAll(dir, 0755)
	if err := orig.SaveManifest(dir); err != nil {
		res.HarnessErr = err.Error()
		return res
	}
	e, err := engine.NewEngineFacade(dir)
	if err != nil {
		viol("open-failed", "opening a database with a valid stored configuration failed: "+err.Error(), map[string]any{"case": "create"})
		return res
	}
	res.Evaluations++
	if !cfgEqual(e.VerifConfig(), orig) {
		viol("runs-with-other-config", fmt.Sprintf("engine runs with %+v, stored %+v", e.VerifConfig(), orig), map[string]any{"case": "create"})
	}
	e.Put([]byte("k"), []byte("v"))
	e.Close()
	if _, err := os.Stat(orig.WALDir); err != nil {
		viol("custom-dirs-ignored", "the configured log directory was not used: "+err.Error(), map[string]any{"case": "create"})
	}
	// reopen: same configuration, data there
	e, err = engine.NewEngineFacade(dir)
	if err != nil {
		viol("open-failed", "reopen failed: "+err.Error(), map[string]any{"case": "reopen"})
		return res
	}
	res.Evaluations++
	if !cfgEqual(e.VerifConfig(), orig) {
		viol("runs-with-other-config", "after reopen the engine runs with another configuration", map[string]any{"case": "reopen"})
	}
	if v, err := e.Get([]byte("k")); err != nil || string(v) != "v" {
		viol("data-lost", fmt.Sprintf("after reopen Get(k)=%q,%v", v, err), map[string]any{"case": "reopen"})
	}
	e.Close()
	good, _ := os.ReadFile(filepath.Join(dir, "MANIFEST"))
	def := config.NewDefaultConfig(dir)
	openCase := func(name string, data []byte, present bool) {
		res.Evaluations++
		res.Nontrivial++
		mp := filepath.Join(dir, "MANIFEST")
		if present {
			os.WriteFile(mp, data, 0644)
		} else {
			os.Remove(mp)
		}
		func() {
			defer func() {
				if r := recover(); r != nil {
					viol("open-panicked", fmt.Sprintf("%s: %v", name, r), map[string]any{"case": name})
				}
			}()
			// only the database directory is writable while the engine opens on the damaged manifest
			vos.SetJail(dir)
			defer vos.SetJail("")
			e, err := engine.NewEngineFacade(dir)
			if err != nil {
				return // opening failed with an error: fine
			}
			defer e.Close()
			got := e.VerifConfig()
			// a stored object that lacks a setting with a documented constraint is invalid (the setting is absent, not
			// positive): whatever value the engine made up for it, it did not come from the stored configuration
			if present {
				var obj map[string]json.RawMessage
				if json.Unmarshal(data, &obj) != nil || obj == nil {
					if json.Valid(data) {
						viol("non-object-manifest-accepted", name+": the stored manifest is not a configuration object but the database opened", map[string]any{"case": name})
						return
					}
				} else {
					for _, k := range c20RequiredKeys {
						if v, ok := obj[k]; !ok || strings.TrimSpace(string(v)) == "null" {
							viol("missing-setting-defaulted", fmt.Sprintf("%s: the stored configuration has no %q (a setting with a documented constraint) but the database opened", name, k), map[string]any{"case": name})
							return
						}
					}
				}
			}
			if cfgEqual(got, def) {
				viol("fell-back-to-defaults", name+": the stored configuration is unreadable/invalid but the database opened with the default configuration over existing data", map[string]any{"case": name})
				return
			}
			// count fields that silently reverted to their default
			rv, dv, ov := reflect.ValueOf(*got), reflect.ValueOf(*def), reflect.ValueOf(*orig)
			reverted := 0
			for i := 0; i < rv.NumField(); i++ {
				if !rv.Type().Field(i).IsExported() {
					continue
				}
				if reflect.DeepEqual(rv.Field(i).Interface(), dv.Field(i).Interface()) && !reflect.DeepEqual(ov.Field(i).Interface(), dv.Field(i).Interface()) {
					reverted++
				}
			}
			if reverted > 1 {
				viol("fell-back-to-defaults", fmt.Sprintf("%s: %d fields silently took their default values", name, reverted), map[string]any{"case": name})
			}
		}()
		os.WriteFile(mp, good, 0644)
		// whatever happened, the original manifest must still open the data
	}
	parts := strings.Split(unit, "/")
	switch parts[1] {
	case "trunc":
		for n := 0; n < len(good); n++ {
			openCase(fmt.Sprintf("truncated to %d of %d bytes", n, len(good)), good[:n], true)
		}
	case "byte":
		var shard, nsh int
		fmt.Sscanf(parts[2], "%d", &shard)
		fmt.Sscanf(parts[3], "%d", &nsh)
		for pos := 0; pos < len(good); pos++ {
			if pos%nsh != shard {
				continue
			}
			for ci, f := range []func(byte) byte{func(b byte) byte { return b ^ 1 }, func(b byte) byte { return b ^ 0x80 }, func(b byte) byte { return 0 }, func(b byte) byte { return '}' }, func(b byte) byte { return '0' }} {
				nb := f(good[pos])
				if nb == good[pos] {
					continue
				}
				d := append([]byte{}, good...)
				d[pos] = nb
				openCase(fmt.Sprintf("byte %d class %d", pos, ci), d, true)
			}
		}
	case "missing":
		// well-formed manifests with a setting left out (or nothing in them at all)
		var obj map[string]json.RawMessage
		if err := json.Unmarshal(good, &obj); err != nil {
			res.HarnessErr = "stored manifest is not an object: " + err.Error()
			return res
		}
		for _, k := range c20RequiredKeys {
			o := map[string]json.RawMessage{}
			for kk, v := range obj {
				if kk != k {
					o[kk] = v
				}
			}
			d, _ := json.MarshalIndent(o, "", "  ")
			openCase("setting "+k+" removed", d, true)
			o[k] = json.RawMessage("null")
			d, _ = json.MarshalIndent(o, "", "  ")
			openCase("setting "+k+" null", d, true)
		}
		openCase("empty object", []byte("{}"), true)
		openCase("null", []byte("null"), true)
		openCase("empty array", []byte("[]"), true)
	case "crash":
		// crash cuts of SaveManifest over the existing database (configuration update)
		upd := cloneCfg(orig)
		upd.MaxMemTables = 9
		vos.StartRecording(dir)
		if err := upd.SaveManifest(dir); err != nil {
			res.HarnessErr = "update save: " + err.Error()
			return res
		}
		log := vos.StopRecording()
		os.WriteFile(filepath.Join(dir, "MANIFEST"), good, 0644)
		base := newMemFS()
		base.loadDir(dir)
		fs := base.clone()
		for cut := 0; cut <= len(log); cut++ {
			var cases []crashCase
			cases = append(cases, crashCase{cut, -1})
			if cut < len(log) && log[cut].Kind == vos.OpWrite {
				for t := 1; t < len(log[cut].Data); t += 7 {
					cases = append(cases, crashCase{cut, t})
				}
			}
			for _, cc := range cases {
				st := fs
				if cc.Torn >= 0 {
					st = fs.clone()
					st.apply(log[cut], cc.Torn)
				}
				fw.Alive()
				st.dump(dir)
				res.Evaluations++
				res.Nontrivial++
				e, err := engine.NewEngineFacade(dir)
				if err != nil {
					viol("open-failed-after-crash", fmt.Sprintf("crash at call %d (torn %d) of a configuration update: opening fails with %v although the old or the new manifest should be intact", cut, cc.Torn, err), map[string]any{"case": fmt.Sprintf("crash %d/%d", cut, cc.Torn)})
					continue
				}
				got := e.VerifConfig()
				if !cfgEqual(got, orig) && !cfgEqual(got, upd) {
					viol("config-after-crash", fmt.Sprintf("crash at call %d (torn %d): engine runs with a configuration that is neither the old nor the new one", cut, cc.Torn), map[string]any{"case": fmt.Sprintf("crash %d/%d", cut, cc.Torn)})
				}
				if v, err := e.Get([]byte("k")); err != nil || string(v) != "v" {
					viol("data-lost-after-config-crash", fmt.Sprintf("crash at call %d: Get(k)=%q,%v", cut, v, err), map[string]any{"case": fmt.Sprintf("crash %d/%d", cut, cc.Torn)})
				}
				e.Close()
			}
			if cut < len(log) {
				fs.apply(log[cut], -1)
			}
		}
	}
	res.Sample(map[string]any{"manifest_bytes": len(good), "case": parts[1]})
	_ = errors.Is
	return res
}

func init() {
	fw.Register(&fw.Check{
		ID:    "C20",
		Level: "exploration",
		Rule: "constraint table of 15 documented clauses written independently of Validate; for 3 valid base configurations: every single-field deviation over {bound-1, bound, bound+1, typical}, every pair of fields over all their values, and the full product warning x critical threshold in [-1,101]^2: Validate accepts <=> table; a rejected configuration makes SaveManifest fail without a single file-system call (recorded through the os shim); an accepted one is stored and loaded back equal in every field (directory strings that are valid but not canonical - trailing slash, ./ component - included); the same two rules through the package's manifest object (NewManifest / UpdateConfig / Save / LoadManifest: a refused update leaves the stored configuration the one the manifest was created with), also when the directory still holds the temporary file of an earlier interrupted save (longer / shorter / equally long junk, another configuration). Thorough tier: every triple of the 15 constrained fields over all their values, and every single / pair assignment of extreme values (int64 and int32 limits, 2^53+1, unknown sync modes, long and oddly-charactered directory names) to the fields without a documented constraint: valid, stored, loaded back equal. Open: a database created with an all-non-default configuration runs with it (also after reopen; custom directories used); every truncation of the stored manifest, every constrained setting removed or null, an empty object / null / array, every single-byte damage x 5 value classes and every crash cut / torn write of a manifest update over existing data: opening fails with an error or runs with the stored (old or new) configuration - never with defaults, and never when the stored object lacks a setting that has a documented constraint. Non-trivial = configurations violating a clause / damaged manifests",
		Assumptions: []string{"a missing manifest is 'not found' (a new database), not 'invalid'", "a damaged byte that yields another valid configuration cannot be detected without a checksum and is not flagged; falling back to defaults is", "while an engine opens on a damaged manifest only the database directory is writable (os shim): directory paths damaged into places outside it fail with a permission error instead of littering the machine"},
		Units: func(tier string) []string {
			us := []string{"validate", "stale-temp", "open/missing", "open/trunc", "open/byte/0/4", "open/byte/1/4", "open/byte/2/4", "open/byte/3/4", "open/crash"}
			if tier == "thorough" {
				for i := 0; i < 12; i++ {
					us = append(us, fmt.Sprintf("validate-triples/%d/12", i))
				}
				us = append(us, "extremes")
			}
			return us
		},
		Run: func(unit string, env *fw.Env) *fw.Result {
			if unit == "validate" {
				return c20ValidateUnit(unit, env)
			}
			if strings.HasPrefix(unit, "validate-triples/") {
				return c20TriplesUnit(unit, env)
			}
			if unit == "stale-temp" {
				return c20StaleTempUnit(unit, env)
			}
			if unit == "extremes" {
				return c20ExtremesUnit(unit, env)
			}
			return c20OpenUnit(unit, env)
		},
		Replay: func(v *fw.Violation) string { return fmt.Sprintf("re-run: kvcheck one C20 quick %s\nwitness: %v", v.Unit, v.Witness) },
		BudgetQuick: 100, BudgetThorough: 300,
	})
}
