package harness

import (
	"bytes"
	"context"
	"fmt"
	"io"
	"sort"
	"strings"
	"time"

	"google.golang.org/grpc"
	"google.golang.org/grpc/codes"
	"google.golang.org/grpc/metadata"
	"google.golang.org/grpc/status"
	"google.golang.org/protobuf/proto"

	"github.com/KevoDB/kevo/pkg/engine"
	"github.com/KevoDB/kevo/pkg/replication"
	"github.com/KevoDB/kevo/pkg/wal"
	"github.com/KevoDB/kevo/pkg/zzverif/vsched"
	"github.com/KevoDB/kevo/pkg/zzverif/vtime"
	rp "github.com/KevoDB/kevo/proto/kevo/replication"
)

// In-memory replacement of the gRPC link between the real Primary and the real Replica, with fault injection.

// fault kinds applied to the n-th message the primary sends on any stream
const (
	fNone = iota
	fDrop
	fDup
	fDelay // deliver after the following message (reordering)
	fBreak // the connection breaks at this send
	fDupLate // delivered, and delivered again after the following message (a retransmission overtaken by newer data)
	fDelay2  // deliver after the following two messages
	nFaultKinds
)

var faultNames = []string{"none", "drop", "dup", "delay", "break", "dup-late", "delay2"}

// Fault positions: the replica of this tree reads one message per connection and reconnects, so positions are
// (connection ordinal, message index on that connection) for the first faultConns connections and faultMsgs messages.
const (
	faultConns = 4
	faultMsgs  = 3
)

func faultPos(conn, msg int) int {
	if conn >= faultConns || msg >= faultMsgs {
		return -1
	}
	return conn*faultMsgs + msg
}

type heldMsg struct {
	m   *rp.WALStreamResponse
	due int // delivered after this many further delivered messages
}

type repLink struct {
	p       *replication.Primary
	faults  map[int]int // fault position (faultPos: connection ordinal, message index on it) -> fault
	sends   int
	window  int
	streams []*memStream
	// replica-side reader that stops consuming (C15)
	log []string
}

func (l *repLink) logf(f string, a ...any) { l.log = append(l.log, fmt.Sprintf(f, a...)) }

type memStream struct {
	grpc.ServerStream
	grpc.ClientStream
	link   *repLink
	ch     chan *rp.WALStreamResponse
	hdr    chan metadata.MD
	ctx    context.Context
	cancel context.CancelFunc
	done   chan struct{} // closed when the server handler returned
	err    error
	held   []heldMsg
	broken bool
	ord    int // ordinal of this stream on the link
	nsent  int // messages the primary sent on it
}

// ---- server side ----

func (s *memStream) Context() context.Context { return s.ctx }
func (s *memStream) SendHeader(md metadata.MD) error {
	select {
	case s.hdr <- md:
	default:
	}
	return nil
}
func (s *memStream) SetHeader(md metadata.MD) error { return s.SendHeader(md) }
func (s *memStream) SetTrailer(metadata.MD)         {}

func (s *memStream) Send(m *rp.WALStreamResponse) error {
	if s.broken || s.ctx.Err() != nil {
		return status.Error(codes.Unavailable, "transport is closing")
	}
	l := s.link
	idx := l.sends
	l.sends++
	f := fNone
	if pos := faultPos(s.ord, s.nsent); pos >= 0 {
		f = l.faults[pos]
	}
	s.nsent++
	c := proto.Clone(m).(*rp.WALStreamResponse) // gRPC marshals: the receiver never shares memory with the sender
	l.logf("send#%d c%d.m%d %s seqs=%v", idx, s.ord, s.nsent-1, faultNames[f], seqsOf(m))
	put := func(x *rp.WALStreamResponse) { vsched.Send(s.ch, x) }
	hold := func(x *rp.WALStreamResponse, due int) { s.held = append(s.held, heldMsg{x, due}) }
	// messages held back become due as later messages are delivered; they go out behind the message that released them
	release := func() {
		var keep []heldMsg
		var out []*rp.WALStreamResponse
		for _, h := range s.held {
			h.due--
			if h.due <= 0 {
				out = append(out, h.m)
			} else {
				keep = append(keep, h)
			}
		}
		s.held = keep
		for _, x := range out {
			put(x)
		}
	}
	switch f {
	case fDrop:
		return nil
	case fDup:
		put(c)
		put(proto.Clone(m).(*rp.WALStreamResponse))
		release()
	case fDelay:
		// an earlier delayed message is overtaken by nothing more: it goes out first
		release()
		hold(c, 1)
	case fDelay2:
		release()
		hold(c, 2)
	case fDupLate:
		put(c)
		release()
		hold(proto.Clone(m).(*rp.WALStreamResponse), 1)
	case fBreak:
		s.broken = true
		s.cancel()
		return status.Error(codes.Unavailable, "connection reset")
	default:
		put(c)
		release()
	}
	return nil
}

func seqsOf(m *rp.WALStreamResponse) []uint64 {
	var s []uint64
	for _, e := range m.Entries {
		s = append(s, e.SequenceNumber)
	}
	return s
}

// ---- client side ----

func (s *memStream) Recv() (*rp.WALStreamResponse, error) {
	ctxDone := s.ctx.Done()
	c0 := vsched.CaseRecv(s.ch)
	c1 := vsched.CaseRecv(s.done)
	c2 := vsched.CaseRecv(ctxDone)
	switch vsched.Select(false, c0, c1, c2) {
	case 0:
		s.link.logf("recv seqs=%v", seqsOf(c0.Val()))
		return c0.Val(), nil
	case 1:
		// drain what is still queued before reporting the end of the stream
		select {
		case m := <-s.ch:
			return m, nil
		default:
		}
		if s.err != nil {
			return nil, status.Error(codes.Unavailable, s.err.Error())
		}
		return nil, io.EOF
	default:
		return nil, status.Error(codes.Unavailable, "connection closed")
	}
}

func (s *memStream) Header() (metadata.MD, error) {
	c0 := vsched.CaseRecv(s.hdr)
	c1 := vsched.CaseRecv(s.done)
	if vsched.Select(false, c0, c1) == 0 {
		md := c0.Val()
		// keep it available for later Header calls
		select {
		case s.hdr <- md:
		default:
		}
		return md, nil
	}
	return nil, status.Error(codes.Unavailable, "stream ended before the header")
}
func (s *memStream) Trailer() metadata.MD { return nil }
func (s *memStream) CloseSend() error     { return nil }
func (s *memStream) SendMsg(any) error    { return nil }
func (s *memStream) RecvMsg(any) error    { return nil }

type memClient struct{ link *repLink }

func (c *memClient) StreamWAL(ctx context.Context, in *rp.WALStreamRequest, opts ...grpc.CallOption) (grpc.ServerStreamingClient[rp.WALStreamResponse], error) {
	sctx, cancel := context.WithCancel(ctx)
	w := c.link.window
	if w == 0 {
		w = 64
	}
	s := &memStream{link: c.link, ch: make(chan *rp.WALStreamResponse, w), hdr: make(chan metadata.MD, 1), ctx: sctx, cancel: cancel, done: make(chan struct{}), ord: len(c.link.streams)}
	c.link.streams = append(c.link.streams, s)
	c.link.logf("StreamWAL start=%d", in.StartSequence)
	req := proto.Clone(in).(*rp.WALStreamRequest)
	vsched.Go(func() {
		s.err = c.link.p.StreamWAL(req, s)
		vsched.Close(s.done)
	})
	return s, nil
}

func inCtx(ctx context.Context) context.Context {
	md, _ := metadata.FromOutgoingContext(ctx)
	return metadata.NewIncomingContext(context.Background(), md)
}

func (c *memClient) Acknowledge(ctx context.Context, in *rp.Ack, opts ...grpc.CallOption) (*rp.AckResponse, error) {
	c.link.logf("ack %d", in.AcknowledgedUpTo)
	return c.link.p.Acknowledge(inCtx(ctx), in)
}

func (c *memClient) NegativeAcknowledge(ctx context.Context, in *rp.Nack, opts ...grpc.CallOption) (*rp.NackResponse, error) {
	c.link.logf("nack from %d", in.MissingFromSequence)
	return c.link.p.NegativeAcknowledge(inCtx(ctx), in)
}

type memConnector struct{ c *memClient }

func (m *memConnector) Connect(r *replication.Replica) error {
	// Connect is only called without a connection (first start, or after the replica closed it in its error
	// state / was restarted): every stream of the previous connection dies with it, as with a real transport.
	for _, s := range m.c.link.streams {
		if !s.broken {
			s.broken = true
			s.cancel()
		}
	}
	m.c.link.logf("connect")
	r.VerifSetClient(m.c)
	return nil
}

// histObserver records every entry the primary's log accepts, in order.
type histObserver struct{ ents []walEnt }

func (h *histObserver) add(e *wal.Entry) {
	h.ents = append(h.ents, walEnt{Type: e.Type, Key: append([]byte{}, e.Key...), Val: append([]byte{}, e.Value...), Seq: e.SequenceNumber})
}
func (h *histObserver) OnWALEntryWritten(e *wal.Entry) { h.add(e) }
func (h *histObserver) OnWALBatchWritten(start uint64, es []*wal.Entry) {
	// the entries of one batch are stamped alike, with the number the batch starts at
	for _, e := range es {
		c := *e
		c.SequenceNumber = start
		h.add(&c)
	}
}
func (h *histObserver) OnWALSync(uint64) {}

// recording applier: every entry handed to the replica's engine, in order
type recApplier struct {
	inner   replication.WALEntryApplier
	Applied []walEnt
	Times   []int64
}

func (a *recApplier) Apply(e *wal.Entry) error {
	a.Applied = append(a.Applied, walEnt{Type: e.Type, Key: append([]byte{}, e.Key...), Val: append([]byte{}, e.Value...), Seq: e.SequenceNumber})
	if s := vsched.Cur(); s != nil {
		a.Times = append(a.Times, s.Now)
	}
	return a.inner.Apply(e)
}
func (a *recApplier) Sync() error { return a.inner.Sync() }

// ---- scenario ----

type repOp struct {
	At   time.Duration // virtual time offset of the operation
	Kind string        // put del tx flush
	Key  string
	Val  string
}

type repScenario struct {
	Name     string
	Ops      []repOp
	JoinAt   time.Duration // when the replica starts
	Restart  time.Duration // 0: never; else the replica is stopped and a new one started at this time
	Settle   time.Duration // time after the last operation in which the replica must converge
	Codec    rp.CompressionCodec
	Explicit bool // use an explicit primary config with the given codec (default config otherwise)
	// ViaManager: the replica node is created and restarted by the real replication.Manager (replica mode) on the
	// replica's engine, and a restart closes and reopens that engine too; only the transport is swapped for the
	// in-memory link. The applier is the manager's own, so the applied log is not recorded (C14's oracle only).
	ViaManager bool
	PCfg       string // engine configuration of the primary ("" = big: synchronous logging)
}

type repResult struct {
	LogReadBack string // non-empty: the primary's log read back differs from what was written
	History   []walEnt // primary log in order
	Applied   []walEnt
	Primary   map[string]string
	Replica   map[string]string
	Problem   string // first safety problem (C13)
	Converged bool
	LastApplied []uint64 // samples of GetLastAppliedSequence
	Log       []string
	PutErrs   []string
}

func engView(e *engine.EngineFacade) map[string]string {
	m := map[string]string{}
	it, err := e.GetIterator()
	if err != nil {
		return m
	}
	n := 0
	for it.SeekToFirst(); it.Valid() && n < 10000; it.Next() {
		n++
		if !it.IsTombstone() {
			m[string(it.Key())] = string(it.Value())
		}
	}
	return m
}

func viewString(m map[string]string) string {
	var ks []string
	for k, v := range m {
		ks = append(ks, k+"="+v)
	}
	sort.Strings(ks)
	return "{" + strings.Join(ks, " ") + "}"
}

// runRep executes one deterministic fair execution (timed mode) of the real primary and replica.
func runRep(dir string, sc repScenario, faults map[int]int) (*repResult, vsched.Outcome, string) {
	res := &repResult{}
	ms := 60_000_000
	if debugMaxSteps > 0 {
		ms = debugMaxSteps
	}
	s := vsched.Run(vsched.Config{Bound: 0, Timed: true, MaxSteps: ms, Trace: debugMaxSteps > 0}, func() {
		pcfg := sc.PCfg
		if pcfg == "" {
			pcfg = "big"
		}
		pr, err := newEngRun(dir+"/primary", engCfgs[pcfg])
		if err != nil {
			res.Problem = "HARNESS open primary: " + err.Error()
			return
		}
		defer pr.Close()
		rr, err := newEngRun(dir+"/replica", engCfgs["big"])
		if err != nil {
			res.Problem = "HARNESS open replica: " + err.Error()
			return
		}
		defer rr.Close()
		rr.Eng.SetReadOnly(true)
		var cfg *replication.PrimaryConfig
		if sc.Explicit {
			cfg = replication.DefaultPrimaryConfig()
			cfg.CompressionCodec = sc.Codec
			cfg.EnableCompression = sc.Codec != rp.CompressionCodec_NONE
		}
		// the primary's write history is recorded as it is written (log observer of the harness), not read back
		// through the functions the primary itself uses to serve replicas
		hist := &histObserver{}
		pr.Eng.GetWAL().RegisterObserver("verif-history", hist)
		prim, err := replication.NewPrimary(pr.Eng.GetWAL(), cfg)
		if err != nil {
			res.Problem = "HARNESS primary: " + err.Error()
			return
		}
		link := &repLink{p: prim, faults: faults}
		rec := &recApplier{inner: replication.NewEngineApplier(rr.Eng)}
		var rep *replication.Replica
		var mgr *replication.Manager
		startReplica := func() {
			if sc.ViaManager {
				cfg := replication.DefaultManagerConfig()
				cfg.Enabled, cfg.Mode = true, "replica"
				cfg.PrimaryAddr, cfg.ListenAddr = "127.0.0.1:1", "127.0.0.1:0"
				m, err := replication.NewManager(rr.Eng, cfg)
				if err != nil {
					res.Problem = "HARNESS manager: " + err.Error()
					return
				}
				if err := m.Start(); err != nil {
					res.Problem = "HARNESS manager start: " + err.Error()
					return
				}
				// the replica's loop has not run yet (cooperative scheduling): its first connection already goes
				// through the in-memory link
				if r := m.VerifReplica(); r != nil {
					r.SetConnector(&memConnector{c: &memClient{link: link}})
					rep = r
				} else {
					res.Problem = "HARNESS manager runs no replica"
				}
				mgr = m
				return
			}
			r, err := replication.NewReplica(0, rec, replication.DefaultReplicaConfig())
			if err != nil {
				res.Problem = "HARNESS replica: " + err.Error()
				return
			}
			r.SetConnector(&memConnector{c: &memClient{link: link}})
			r.Start()
			rep = r
		}
		start := vsched.Cur().Now
		at := func(d time.Duration) {
			if w := start + int64(d); w > vsched.Cur().Now {
				vsched.SleepUntil(w)
			}
		}
		// timeline: operations, join, restart
		type ev struct {
			at time.Duration
			f  func()
		}
		var evs []ev
		for _, o := range sc.Ops {
			o := o
			evs = append(evs, ev{o.At, func() {
				var err error
				switch o.Kind {
				case "put":
					err = pr.Eng.Put([]byte(o.Key), []byte(o.Val))
				case "del":
					err = pr.Eng.Delete([]byte(o.Key))
				case "tx":
					tx, e := pr.Eng.BeginTransaction(false)
					if e == nil {
						tx.Put([]byte(o.Key), []byte(o.Val))
						tx.Put([]byte(o.Key+"2"), []byte(o.Val))
						tx.Delete([]byte("gone"))
						e = tx.Commit()
					}
					err = e
				case "putfat":
					err = pr.Eng.Put([]byte(o.Key), bytes.Repeat([]byte(o.Val), 20000))
				case "fattx":
					// one transaction of eight 20 KB values: more bytes than the primary's configured batch size
					tx, e := pr.Eng.BeginTransaction(false)
					if e == nil {
						for i := 0; i < 8; i++ {
							tx.Put([]byte(fmt.Sprintf("%s%d", o.Key, i)), bytes.Repeat([]byte(o.Val), 20000))
						}
						e = tx.Commit()
					}
					err = e
				case "badtx":
					// a transaction the log rejects (an entry larger than one record): the commit fails, nothing changes
					tx, e := pr.Eng.BeginTransaction(false)
					if e == nil {
						tx.Put([]byte(o.Key), []byte(o.Val))
						tx.Put([]byte(o.Key+"-big"), bytes.Repeat([]byte("B"), 40000))
						if cerr := tx.Commit(); cerr == nil {
							e = fmt.Errorf("a commit holding a 40000-byte value succeeded")
						}
					}
					err = e
				case "bigtx":
					// one transaction of 130 entries: more than the primary puts into one stream message
					tx, e := pr.Eng.BeginTransaction(false)
					if e == nil {
						for i := 0; i < 130; i++ {
							tx.Put([]byte(fmt.Sprintf("%s%03d", o.Key, i)), []byte(o.Val))
						}
						e = tx.Commit()
					}
					err = e
				case "flush":
					err = pr.Eng.FlushImMemTables()
				}
				if err != nil {
					res.PutErrs = append(res.PutErrs, fmt.Sprintf("%s(%s): %v", o.Kind, o.Key, err))
				}
			}})
		}
		evs = append(evs, ev{sc.JoinAt, startReplica})
		if sc.Restart > 0 {
			evs = append(evs, ev{sc.Restart, func() {
				if sc.ViaManager {
					// the whole replica process goes down and comes back on its data directory
					if mgr != nil {
						mgr.Stop()
					}
					rr.Eng.Close()
					e, err := engine.NewEngineFacade(rr.Dir)
					if err != nil {
						res.Problem = "HARNESS replica reopen: " + err.Error()
						return
					}
					rr.Eng = e
					startReplica()
					return
				}
				if rep != nil {
					rep.Stop()
				}
				startReplica()
			}})
		}
		sort.SliceStable(evs, func(i, j int) bool { return evs[i].at < evs[j].at })
		var last time.Duration
		for _, e := range evs {
			at(e.at)
			e.f()
			last = e.at
			if rep != nil {
				res.LastApplied = append(res.LastApplied, rep.GetLastAppliedSequence())
			}
		}
		// fair continuation: the writer has stopped, the link is up, no more faults are scheduled
		step := sc.Settle / 20
		for i := 0; i < 20; i++ {
			at(last + time.Duration(i+1)*step)
			if rep != nil {
				res.LastApplied = append(res.LastApplied, rep.GetLastAppliedSequence())
			}
		}
		res.Primary, res.Replica = engView(pr.Eng), engView(rr.Eng)
		res.Converged = viewString(res.Primary) == viewString(res.Replica)
		if res.Converged {
			// ... and stays there
			at(last + sc.Settle + 5*time.Second)
			res.Replica = engView(rr.Eng)
			res.Converged = viewString(res.Primary) == viewString(res.Replica)
		}
		res.History = hist.ents
		// cross-check with the log read back (a difference is the primary's problem, reported with the C13 oracle)
		if es, err := pr.Eng.GetWAL().GetEntriesFrom(0); err == nil {
			var back []walEnt
			for _, e := range es {
				back = append(back, walEnt{Type: e.Type, Key: e.Key, Val: e.Value, Seq: e.SequenceNumber})
			}
			if p := checkAppliedPrefix(hist.ents, back); p != "" || len(back) != len(hist.ents) {
				res.LogReadBack = fmt.Sprintf("the primary's log read back from sequence 0 holds %d entries, %d were written: %s", len(back), len(hist.ents), firstLine(p))
			}
		}
		res.Applied = rec.Applied
		res.Log = link.log
		if mgr != nil {
			mgr.Stop()
		} else if rep != nil {
			rep.Stop()
		}
		prim.Close()
		_ = vtime.Now
	})
	debugTrace = s.Trace
	return res, s.Out, s.Detail
}

// checkAppliedPrefix: the applied sequence must be the primary history, in order, nothing skipped or applied twice.
func checkAppliedPrefix(hist, applied []walEnt) string {
	for i, a := range applied {
		if i >= len(hist) {
			return fmt.Sprintf("applied-more-than-written\nthe replica applied %d entries, the primary wrote %d; entry %d is %v", len(applied), len(hist), i, a)
		}
		if !sameWal(hist[i], a) {
			// classify
			for j := 0; j < i; j++ {
				if sameWal(hist[j], a) {
					return fmt.Sprintf("entry-re-applied\napplied entry %d is %v, which was already applied as entry %d (expected %v)", i, a, j, hist[i])
				}
			}
			for j := i + 1; j < len(hist); j++ {
				if sameWal(hist[j], a) {
					return fmt.Sprintf("entry-skipped\napplied entry %d is %v but the primary's entry %d %v was never applied before it", i, a, i, hist[i])
				}
			}
			return fmt.Sprintf("entry-altered\napplied entry %d is %v, the primary wrote %v", i, a, hist[i])
		}
	}
	return ""
}
