package smoke

import (
	"fmt"
	"sort"
	"strings"

	"github.com/KevoDB/kevo/pkg/memtable"
	"github.com/KevoDB/kevo/pkg/zzverif/vsched"
	"verif/mc/explore"
)

// Scenario: one writer inserting 3 entries, one reader doing Get + iteration.
func Scenario() *explore.Scenario {
	return &explore.Scenario{
		Name: "smoke-memtable",
		Body: func() any {
			mt := memtable.NewMemTable()
			var got []string
			w := vsched.GoNamed("W", func() {
				mt.Put([]byte("b"), []byte("1"), 1)
				mt.Put([]byte("a"), []byte("2"), 2)
				mt.Put([]byte("b"), []byte("3"), 3)
			})
			r := vsched.GoNamed("R", func() {
				v, ok := mt.Get([]byte("b"))
				got = append(got, fmt.Sprintf("get=%s/%v", v, ok))
				it := mt.NewIterator()
				var ks []string
				for it.SeekToFirst(); it.Valid(); it.Next() {
					ks = append(ks, fmt.Sprintf("%s@%d", it.Key(), it.SequenceNumber()))
				}
				got = append(got, strings.Join(ks, ","))
			})
			vsched.Join(w)
			vsched.Join(r)
			return got
		},
		Check: func(s *vsched.Sched, obs any) (string, string) {
			got := obs.([]string)
			key := strings.Join(got, "|")
			// iteration must be sorted
			ks := strings.Split(got[1], ",")
			if !sort.SliceIsSorted(ks, func(i, j int) bool { return ks[i][:1] < ks[j][:1] }) {
				return key, "iteration not sorted: " + got[1]
			}
			return key, ""
		},
	}
}
