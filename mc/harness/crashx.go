package harness

import (
	"fmt"
	"os"
	"path/filepath"
	"sort"
	"strings"

	"github.com/KevoDB/kevo/pkg/zzverif/vos"
)

// crashx: crash-state enumeration over a recorded file-system log.
// Crash model = process death: every completed write reached the OS and
// survives; user-space buffers are lost; the write in flight may be applied
// partially (torn). fsync does not change the set of crash states.

type memFS struct {
	files map[string][]byte
	dirs  map[string]bool
}

func newMemFS() *memFS { return &memFS{files: map[string][]byte{}, dirs: map[string]bool{".": true}} }

func (m *memFS) clone() *memFS {
	c := newMemFS()
	for k, v := range m.files {
		c.files[k] = v // contents are copied on write
	}
	for k := range m.dirs {
		c.dirs[k] = true
	}
	return c
}

// loadDir reads a real directory into the model.
func (m *memFS) loadDir(root string) error {
	return filepath.Walk(root, func(p string, info os.FileInfo, err error) error {
		if err != nil {
			return err
		}
		rel, _ := filepath.Rel(root, p)
		if info.IsDir() {
			m.dirs[rel] = true
			return nil
		}
		b, err := os.ReadFile(p)
		if err != nil {
			return err
		}
		m.files[rel] = b
		return nil
	})
}

// apply performs op; for writes only the first n bytes when n >= 0.
func (m *memFS) apply(op vos.Op, n int) {
	switch op.Kind {
	case vos.OpMkdir:
		p := op.Path
		for p != "." && p != "/" && p != "" {
			m.dirs[p] = true
			p = filepath.Dir(p)
		}
	case vos.OpCreate:
		if _, ok := m.files[op.Path]; !ok || op.Trunc {
			m.files[op.Path] = nil
		}
	case vos.OpWrite:
		data := op.Data
		if n >= 0 && n < len(data) {
			data = data[:n]
		}
		old := m.files[op.Path]
		end := int(op.Off) + len(data)
		nb := make([]byte, max(len(old), end))
		copy(nb, old)
		copy(nb[op.Off:], data)
		m.files[op.Path] = nb
	case vos.OpRename:
		if b, ok := m.files[op.Path]; ok {
			delete(m.files, op.Path)
			m.files[op.Path2] = b
		} else if m.dirs[op.Path] {
			delete(m.dirs, op.Path)
			m.dirs[op.Path2] = true
			for k, v := range m.files {
				if strings.HasPrefix(k, op.Path+"/") {
					delete(m.files, k)
					m.files[op.Path2+k[len(op.Path):]] = v
				}
			}
		}
	case vos.OpRemove:
		delete(m.files, op.Path)
		delete(m.dirs, op.Path)
	case vos.OpRemoveAll:
		delete(m.files, op.Path)
		delete(m.dirs, op.Path)
		for k := range m.files {
			if strings.HasPrefix(k, op.Path+"/") {
				delete(m.files, k)
			}
		}
		for k := range m.dirs {
			if strings.HasPrefix(k, op.Path+"/") {
				delete(m.dirs, k)
			}
		}
	case vos.OpTruncate:
		old := m.files[op.Path]
		nb := make([]byte, op.Off)
		copy(nb, old)
		m.files[op.Path] = nb
	}
}

func max(a, b int) int {
	if a > b {
		return a
	}
	return b
}

// dump materialises the model in dst (which is wiped first).
func (m *memFS) dump(dst string) error {
	os.RemoveAll(dst)
	var ds []string
	for d := range m.dirs {
		ds = append(ds, d)
	}
	sort.Strings(ds)
	if err := os.MkdirAll(dst, 0755); err != nil {
		return err
	}
	for _, d := range ds {
		if err := os.MkdirAll(filepath.Join(dst, d), 0755); err != nil {
			return err
		}
	}
	for f, b := range m.files {
		p := filepath.Join(dst, f)
		os.MkdirAll(filepath.Dir(p), 0755)
		if err := os.WriteFile(p, b, 0644); err != nil {
			return err
		}
	}
	return nil
}

// tornCuts returns the torn lengths to try for a write of m bytes into file path.
func tornCuts(op vos.Op) []int {
	m := len(op.Data)
	if m <= 1 {
		return nil
	}
	set := map[int]bool{}
	if m <= 512 {
		for t := 1; t < m; t++ {
			set[t] = true
		}
	} else {
		for t := 1; t <= 64 && t < m; t++ {
			set[t] = true
			set[m-t] = true
		}
		for t := 4096; t < m; t += 4096 {
			set[t] = true
		}
		// WAL record boundaries inside the write
		if strings.HasSuffix(op.Path, ".wal") {
			off := 0
			for off+7 <= m {
				l := int(op.Data[off+4]) | int(op.Data[off+5])<<8
				for d := -8; d <= 8; d++ {
					if t := off + d; t > 0 && t < m {
						set[t] = true
					}
				}
				off += 7 + l
			}
		} else {
			for t := 251; t < m; t += 251 {
				set[t] = true
			}
		}
	}
	var ts []int
	for t := range set {
		ts = append(ts, t)
	}
	sort.Ints(ts)
	return ts
}

func describeOp(op vos.Op) string {
	switch op.Kind {
	case vos.OpWrite:
		return fmt.Sprintf("write(%s,off=%d,%dB)", op.Path, op.Off, len(op.Data))
	case vos.OpCreate:
		return "create(" + op.Path + ")"
	case vos.OpRename:
		return "rename(" + op.Path + "->" + op.Path2 + ")"
	case vos.OpRemove:
		return "remove(" + op.Path + ")"
	case vos.OpMkdir:
		return "mkdir(" + op.Path + ")"
	case vos.OpSync:
		return "sync(" + op.Path + ")"
	case vos.OpMark:
		return "mark(" + op.Path + ")"
	case vos.OpTruncate:
		return fmt.Sprintf("truncate(%s,%d)", op.Path, op.Off)
	case vos.OpRemoveAll:
		return "removeall(" + op.Path + ")"
	}
	return "?"
}

// normPath replaces timestamps in file names (fingerprints must not depend on them).
func normPath(p string) string {
	b := []byte(p)
	out := make([]byte, 0, len(b))
	run := 0
	for i := 0; i <= len(b); i++ {
		if i < len(b) && b[i] >= '0' && b[i] <= '9' {
			run++
			continue
		}
		if run >= 10 {
			out = append(out, 'T')
		} else {
			out = append(out, b[i-run:i]...)
		}
		run = 0
		if i < len(b) {
			out = append(out, b[i])
		}
	}
	return string(out)
}
