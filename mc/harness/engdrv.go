package harness

import (
	"bytes"
	"regexp"
	"errors"
	"fmt"
	"os"
	"path/filepath"
	"sort"
	"strings"
	"time"

	"github.com/KevoDB/kevo/pkg/config"
	"github.com/KevoDB/kevo/pkg/engine"
	"github.com/KevoDB/kevo/pkg/wal"
	"github.com/KevoDB/kevo/pkg/engine/storage"
	"github.com/KevoDB/kevo/pkg/zzverif/vsched"
	"github.com/KevoDB/kevo/pkg/zzverif/vtime"
)

// EngCfg is one engine configuration class.
type EngCfg struct {
	Name         string
	MemTableSize int64
	MaxMemTables int
	Sync         config.SyncMode
	WALMax       int64 // wal_max_size (0 = default); it only decides whether a reopening may continue the newest log file
}

var engCfgs = map[string]EngCfg{
	"big":   {"big", 32 << 20, 4, config.SyncImmediate, 0},
	"tiny":  {"tiny", 1, 4, config.SyncImmediate, 0},      // every write switches tables
	"two":   {"two", 40, 4, config.SyncImmediate, 0},      // every second write
	"tiny2": {"tiny2", 1, 2, config.SyncNone, 0},          // compaction triggers at 2 files
	"bigN":  {"bigN", 32 << 20, 2, config.SyncNone, 0},
	"bigB":  {"bigB", 32 << 20, 4, config.SyncBatch, 0},
	"norw":  {"norw", 32 << 20, 4, config.SyncImmediate, 1}, // a reopening never continues the newest log file
	"mid":   {"mid", 600, 4, config.SyncImmediate, 0},      // a table holds 20-30 small entries; a log of 50 entries spans several
}

// EngOp is one step of an engine program.
type EngOp struct {
	Kind string  `json:"k"` // put del txc txr flush bg compact crange reopen
	Key  string  `json:"key,omitempty"`
	Val  string  `json:"val,omitempty"`
	Sub  []EngOp `json:"sub,omitempty"`
	Lo   string  `json:"lo,omitempty"`
	Hi   string  `json:"hi,omitempty"`
}

func (o EngOp) String() string {
	switch o.Kind {
	case "put", "putF":
		if o.Val == "<same>" {
			return fmt.Sprintf("putback(%q)", o.Key)
		}
		return fmt.Sprintf("%s(%q)", o.Kind, o.Key)
	case "delF":
		return fmt.Sprintf("delF(%q)", o.Key)
	case "del":
		return fmt.Sprintf("del(%q)", o.Key)
	case "txc", "txr", "txa", "txclosed", "abatch":
		var s []string
		for _, x := range o.Sub {
			s = append(s, x.String())
		}
		return o.Kind + "[" + strings.Join(s, ",") + "]"
	case "crange":
		return fmt.Sprintf("crange(%q,%q)", o.Lo, o.Hi)
	}
	return o.Kind
}

func progString(p []EngOp) string {
	var s []string
	for _, o := range p {
		s = append(s, o.String())
	}
	return strings.Join(s, " ")
}

// EngRun drives a real engine next to the reference model.
type EngRun struct {
	Dir     string
	Cfg     EngCfg
	Eng     *engine.EngineFacade
	Model   map[string][]byte
	Step    int
	Errs    []string
	History []string // values ever written per step (for diagnostics)
	Seqs    []uint64 // storage_last_sequence after every step
	EffectiveCompactions int // compact / crange steps that changed the set of table files
	TxView  string // first disagreement between a transaction's own reads/scan and its view (checked inside every tx step)
}

func writeManifest(dir string, c EngCfg) error {
	cfg := config.NewDefaultConfig(dir)
	cfg.MemTableSize = c.MemTableSize
	cfg.MaxMemTables = c.MaxMemTables
	cfg.WALSyncMode = c.Sync
	if c.WALMax > 0 {
		cfg.WALMaxSize = c.WALMax
	}
	return cfg.SaveManifest(dir)
}

func newEngRun(dir string, c EngCfg) (*EngRun, error) {
	if err := os.MkdirAll(dir, 0755); err != nil {
		return nil, err
	}
	if err := writeManifest(dir, c); err != nil {
		return nil, err
	}
	e, err := engine.NewEngineFacade(dir)
	if err != nil {
		return nil, err
	}
	return &EngRun{Dir: dir, Cfg: c, Eng: e, Model: map[string][]byte{}}, nil
}

func (r *EngRun) val(o EngOp) []byte {
	if o.Val == "<same>" {
		// exactly the bytes the key has in the committed state (a write that "puts the value back")
		if v, ok := r.Model[o.Key]; ok {
			return append([]byte{}, v...)
		}
		return []byte(fmt.Sprintf("v%d", r.Step))
	}
	if o.Val != "" {
		if o.Val == "<empty>" {
			return []byte{}
		}
		if o.Val == "<nil>" {
			return nil
		}
		if strings.HasPrefix(o.Val, "<big:") {
			var n int
			fmt.Sscanf(o.Val, "<big:%d>", &n)
			return bytes.Repeat([]byte{byte('a' + r.Step%26)}, n)
		}
		return []byte(o.Val)
	}
	return []byte(fmt.Sprintf("v%d", r.Step))
}

var errReopen = errors.New("reopen failed")

// Apply executes op on the engine and, when it reports success, on the model.
// engRangeView adds bounded scans to the own-view check of transaction steps (sequential units only: under an
// explored schedule the extra iterator steps would only multiply interleavings of reads that are checked anyway).
var engRangeView bool

func (r *EngRun) Apply(o EngOp) error {
	r.Step++
	var err error
	switch o.Kind {
	case "put":
		v := r.val(o)
		if err = r.Eng.Put([]byte(o.Key), v); err == nil {
			if v == nil {
				v = []byte{}
			}
			r.Model[o.Key] = v
		}
	case "del":
		if err = r.Eng.Delete([]byte(o.Key)); err == nil {
			delete(r.Model, o.Key)
		}
	case "txc", "txr", "txa", "txclosed":
		tx, berr := r.Eng.BeginTransaction(false)
		if berr != nil {
			err = berr
			break
		}
		tmp := map[string][]byte{}
		dels := map[string]bool{}
		// the transaction's own view: the committed state with its buffered writes laid over it (the last operation
		// on a key wins), for point reads and for a scan; checked wherever the body scans, and before it ends
		checkView := func() {
			if err != nil || r.TxView != "" {
				return
			}
			view := map[string][]byte{}
			for k, v := range r.Model {
				view[k] = v
			}
			for k, v := range tmp {
				if v == nil {
					v = []byte{}
				}
				view[k] = v
			}
			for k := range dels {
				delete(view, k)
			}
			for _, s := range o.Sub {
				if s.Kind == "scan" {
					continue
				}
				got, gerr := tx.Get([]byte(s.Key))
				want, ok := view[s.Key]
				if ok && (gerr != nil || !bytes.Equal(got, want)) {
					r.TxView = fmt.Sprintf("tx-own-write-not-read\ninside %s: tx.Get(%q) = (%q, %v), the transaction's latest write is a put of %q", o.String(), s.Key, clip(got), gerr, clip(want))
				} else if !ok && gerr == nil {
					r.TxView = fmt.Sprintf("tx-own-delete-not-read\ninside %s: tx.Get(%q) = %q, the transaction's latest operation on it is a delete", o.String(), s.Key, clip(got))
				}
			}
			it := tx.NewIterator()
			var got []string
			for it.SeekToFirst(); it.Valid() && len(got) < 100; it.Next() {
				if it.IsTombstone() {
					continue
				}
				got = append(got, string(it.Key())+"="+string(clip(it.Value())))
			}
			var want []string
			for k, v := range view {
				want = append(want, k+"="+string(clip(v)))
			}
			sort.Strings(want)
			if r.TxView == "" && strings.Join(got, ",") != strings.Join(want, ",") {
				r.TxView = fmt.Sprintf("tx-scan-differs\ninside %s: the transaction's scan yields [%s], its own view is [%s]", o.String(), strings.Join(got, ","), strings.Join(want, ","))
			}
			if !engRangeView {
				return
			}
			// bounded scans of the same view: [k, end) and [start, k) for every key the body names (a bound equal
			// to a key the transaction wrote is the interesting one) and for one key on either side of them
			bounds := map[string]bool{"": true, "0": true, "zz": true}
			for _, s := range o.Sub {
				if s.Kind != "scan" {
					bounds[s.Key] = true
				}
			}
			for k := range r.Model {
				bounds[k] = true
			}
			var bs []string
			for k := range bounds {
				bs = append(bs, k)
			}
			sort.Strings(bs)
			for _, lo := range bs {
				for _, hi := range bs {
					if lo != "" && hi != "" && lo >= hi {
						continue
					}
					var lob, hib []byte
					if lo != "" {
						lob = []byte(lo)
					}
					if hi != "" {
						hib = []byte(hi)
					}
					rit := tx.NewRangeIterator(lob, hib)
					var rgot, rwant []string
					for rit.SeekToFirst(); rit.Valid() && len(rgot) < 100; rit.Next() {
						if rit.IsTombstone() {
							continue
						}
						rgot = append(rgot, string(rit.Key())+"="+string(clip(rit.Value())))
					}
					for k, v := range view {
						if (lo == "" || k >= lo) && (hi == "" || k < hi) {
							rwant = append(rwant, k+"="+string(clip(v)))
						}
					}
					sort.Strings(rwant)
					if r.TxView == "" && strings.Join(rgot, ",") != strings.Join(rwant, ",") {
						r.TxView = fmt.Sprintf("tx-range-scan-differs\ninside %s: the transaction's scan of [%q, %q) yields [%s], its own view is [%s]", o.String(), lo, hi, strings.Join(rgot, ","), strings.Join(rwant, ","))
					}
				}
			}
				}
		for i, s := range o.Sub {
			if s.Kind == "scan" {
				checkView()
				continue
			}
			if s.Kind == "put" {
				v := []byte(fmt.Sprintf("v%d.%d", r.Step, i))
				if s.Val != "" {
					v = r.val(s)
				}
				kb := []byte(s.Key)
				vb := append([]byte{}, v...)
				if e := tx.Put(kb, vb); e != nil {
					err = e
				}
				// the caller may reuse its buffers after the call returns
				for j := range kb {
					kb[j] = 'X'
				}
				for j := range vb {
					vb[j] = 'X'
				}
				tmp[s.Key] = v
				delete(dels, s.Key)
			} else {
				kb := []byte(s.Key)
				if e := tx.Delete(kb); e != nil {
					err = e
				}
				for j := range kb {
					kb[j] = 'X'
				}
				delete(tmp, s.Key)
				dels[s.Key] = true
			}
		}
		checkView()
		if o.Kind == "txa" {
			// abandoned: never finished (keeps the transaction lock; only non-transactional calls may follow)
			break
		}
		if o.Kind == "txclosed" {
			// commit after the engine was closed: must fail and leave no trace
			r.Eng.Close()
			if cerr := tx.Commit(); cerr == nil {
				err = errors.New("commit on a closed engine reported success")
			}
			e, oerr := engine.NewEngineFacade(r.Dir)
			if oerr != nil {
				return fmt.Errorf("%w: %v", errReopen, oerr)
			}
			r.Eng = e
			break
		}
		if o.Kind == "txc" {
			if cerr := tx.Commit(); cerr != nil {
				err = cerr
			} else if err == nil {
				for k, v := range tmp {
					r.Model[k] = v
				}
				for k := range dels {
					delete(r.Model, k)
				}
			}
		} else {
			if rerr := tx.Rollback(); rerr != nil {
				err = rerr
			}
		}
	case "abatch":
		// the engine's batch call with raw entries (no transaction buffer in front of it): operations on one key keep
		// their order inside the batch, the last one wins
		var ents []*wal.Entry
		tmp := map[string][]byte{}
		dels := map[string]bool{}
		for i, s := range o.Sub {
			if s.Kind == "put" {
				v := []byte(fmt.Sprintf("v%d.%d", r.Step, i))
				if s.Val != "" {
					v = r.val(s)
				}
				ents = append(ents, &wal.Entry{Type: wal.OpTypePut, Key: []byte(s.Key), Value: v})
				tmp[s.Key] = v
				delete(dels, s.Key)
			} else {
				ents = append(ents, &wal.Entry{Type: wal.OpTypeDelete, Key: []byte(s.Key)})
				delete(tmp, s.Key)
				dels[s.Key] = true
			}
		}
		if err = r.Eng.ApplyBatch(ents); err == nil {
			for k, v := range tmp {
				r.Model[k] = v
			}
			for k := range dels {
				delete(r.Model, k)
			}
		}
	case "putF", "delF":
		// a write that ends up in its own level-0 file: write, switch the memtable, let the background flush run
		if o.Kind == "putF" {
			v := r.val(o)
			if err = r.Eng.Put([]byte(o.Key), v); err == nil {
				r.Model[o.Key] = v
			}
		} else if err = r.Eng.Delete([]byte(o.Key)); err == nil {
			delete(r.Model, o.Key)
		}
		if sm, ok := r.Eng.VerifStorage().(*storage.Manager); ok {
			sm.VerifSwitch()
			vsched.Quiesce()
		}
	case "clock":
		vtime.Advance(25 * time.Hour)
	case "flush":
		err = r.Eng.FlushImMemTables()
	case "bg":
		vsched.Quiesce()
	case "compact":
		before := listSST(filepath.Join(r.Dir, "sst"))
		err = r.Eng.TriggerCompaction()
		if listSST(filepath.Join(r.Dir, "sst")) != before {
			r.EffectiveCompactions++
		}
	case "crange":
		var lo, hi []byte
		if o.Lo != "" {
			lo = []byte(o.Lo)
		}
		if o.Hi != "" {
			hi = []byte(o.Hi)
		}
		before := listSST(filepath.Join(r.Dir, "sst"))
		err = r.Eng.CompactRange(lo, hi)
		if listSST(filepath.Join(r.Dir, "sst")) != before {
			r.EffectiveCompactions++
		}
	case "reopen":
		if cerr := r.Eng.Close(); cerr != nil {
			r.Errs = append(r.Errs, fmt.Sprintf("step %d close: %v", r.Step, cerr))
		}
		e, oerr := engine.NewEngineFacade(r.Dir)
		if oerr != nil {
			return fmt.Errorf("%w: %v", errReopen, oerr)
		}
		r.Eng = e
	default:
		panic("unknown op " + o.Kind)
	}
	if err != nil {
		r.Errs = append(r.Errs, fmt.Sprintf("step %d %s: %v", r.Step, o, err))
	}
	if st, ok := r.Eng.GetStats()["storage_last_sequence"].(uint64); ok {
		r.Seqs = append(r.Seqs, st)
	}
	return err
}

// CheckGets compares Get of every key with the model.
func (r *EngRun) CheckGets(keys []string) string {
	if r.TxView != "" {
		return r.TxView
	}
	for _, k := range keys {
		got, err := r.Eng.Get([]byte(k))
		want, ok := r.Model[k]
		switch {
		case ok && err != nil:
			return fmt.Sprintf("get-lost\nGet(%q) = %v; latest write is a put of %q", k, err, clip(want))
		case ok && !bytes.Equal(got, want):
			return fmt.Sprintf("get-stale\nGet(%q) = %q; latest write is a put of %q", k, clip(got), clip(want))
		case !ok && err == nil:
			return fmt.Sprintf("get-resurrected\nGet(%q) = %q; key was never written or its latest write is a delete", k, clip(got))
		case !ok && !isNotFound(err):
			return fmt.Sprintf("get-error\nGet(%q) failed with %v (expected not-found)", k, err)
		}
	}
	return ""
}

// Scan returns the live keys of a full scan (tombstones skipped by the consumer, the documented contract).
func (r *EngRun) Scan() ([][2]string, string) {
	it, err := r.Eng.GetIterator()
	if err != nil {
		return nil, "scan-error\n" + err.Error()
	}
	var out [][2]string
	n := 0
	for it.SeekToFirst(); it.Valid(); it.Next() {
		if n++; n > 10000 {
			return out, "scan-nonterminating\nfull scan does not terminate"
		}
		if it.IsTombstone() {
			continue
		}
		out = append(out, [2]string{string(it.Key()), string(it.Value())})
	}
	return out, ""
}

// CheckScan compares a full scan with the model.
func (r *EngRun) CheckScan() string {
	got, p := r.Scan()
	if p != "" {
		return p
	}
	var keys []string
	for k := range r.Model {
		keys = append(keys, k)
	}
	sort.Strings(keys)
	for i := 0; i < len(keys) || i < len(got); i++ {
		if i >= len(got) {
			return fmt.Sprintf("scan-missing\nfull scan lacks live key %q (got %v)", keys[i], got)
		}
		if i >= len(keys) {
			return fmt.Sprintf("scan-extra\nfull scan yields %q which is not live (model keys %v)", got[i][0], keys)
		}
		if got[i][0] != keys[i] {
			if i > 0 && got[i][0] <= got[i-1][0] {
				return fmt.Sprintf("scan-order\nfull scan not strictly ascending: %v", got)
			}
			return fmt.Sprintf("scan-keys\nfull scan yields %v, live keys are %v", got, keys)
		}
		if got[i][1] != string(r.Model[keys[i]]) {
			return fmt.Sprintf("scan-stale-value\nfull scan yields %q=%q, latest value is %q", keys[i], clip([]byte(got[i][1])), clip(r.Model[keys[i]]))
		}
	}
	return ""
}

// StateKey is the canonical description of the implementation state (for de-duplication).
func (r *EngRun) StateKey() string {
	sm, ok := r.Eng.VerifStorage().(*storage.Manager)
	if !ok {
		return ""
	}
	var b strings.Builder
	for _, l := range sm.VerifDump() {
		b.WriteString(l.Name)
		b.WriteString("[")
		b.WriteString(strings.Join(l.Entries, ","))
		b.WriteString("]")
	}
	// files on disk (levels and order), names normalised to ordinals
	ents, _ := os.ReadDir(sm.VerifSSTDir())
	b.WriteString("|files:")
	for _, e := range ents {
		n := e.Name()
		if i := strings.LastIndex(n, "_"); i > 0 {
			n = n[:i]
		}
		b.WriteString(n + ";")
	}
	wents, _ := os.ReadDir(sm.VerifWALDir())
	b.WriteString(fmt.Sprintf("|wal:%d", len(wents)))
	if cm, ok := r.Eng.VerifCompaction().(interface{ VerifTombstones() []string }); ok {
		b.WriteString("|tomb:" + strings.Join(cm.VerifTombstones(), ","))
	}
	// the model is part of the key: two states that read the same but differ in expectation are different
	var ks []string
	for k, v := range r.Model {
		ks = append(ks, k+"="+string(v))
	}
	sort.Strings(ks)
	b.WriteString("|model:" + strings.Join(ks, ","))
	return canonValues(b.String())
}

func (r *EngRun) Close() {
	if r.Eng != nil {
		r.Eng.Close()
	}
}

// runEngProg executes prog on a fresh engine under the deterministic scheduler
// (choice 0 everywhere: the client runs until it blocks; background threads run
// only at "bg" steps or when the client waits for them). f inspects the final run.
func runEngProg(dir string, c EngCfg, prog []EngOp, f func(r *EngRun, err error)) (out vsched.Outcome, detail string) {
	os.RemoveAll(dir)
	s := vsched.Run(vsched.Config{Bound: 0, NoEnv: true, MaxSteps: 3_000_000}, func() {
		r, err := newEngRun(dir, c)
		if err != nil {
			f(nil, err)
			return
		}
		for _, o := range prog {
			if err = r.Apply(o); errors.Is(err, errReopen) {
				f(r, err)
				return
			}
		}
		f(r, nil)
		r.Close()
	})
	os.RemoveAll(dir)
	return s.Out, s.Detail
}

var valueIDRe = regexp.MustCompile(`v[0-9]+(\.[0-9]+)?`)

// canonValues renames value ids by order of first appearance: future writes use fresh ids anyway and the
// oracles only compare values for equality, so states that differ only in the names of their ids have the same futures.
func canonValues(s string) string {
	m := map[string]string{}
	return valueIDRe.ReplaceAllStringFunc(s, func(x string) string {
		if y, ok := m[x]; ok {
			return y
		}
		y := fmt.Sprintf("#%d", len(m))
		m[x] = y
		return y
	})
}

func isNotFound(err error) bool {
	return err != nil && (errors.Is(err, engine.ErrKeyNotFound) || errors.Is(err, storage.ErrKeyNotFound) || strings.Contains(err.Error(), "key not found"))
}
