package harness

import (
	"context"
	"encoding/json"
	"fmt"
	"path/filepath"
	"strings"
	"time"

	"google.golang.org/grpc/metadata"

	"github.com/KevoDB/kevo/pkg/replication"
	"github.com/KevoDB/kevo/pkg/zzverif/vsched"
	rp "github.com/KevoDB/kevo/proto/kevo/replication"
	"verif/mc/explore"
	"verif/mc/fw"
)

// C15 — replicas cannot stall or fail the primary.

// openSession starts a replica session on the primary through the in-memory link. reads: how many messages the
// replica-side reader consumes before it stops reading (-1: reads for ever).
func openSession(link *repLink, listener string, start uint64, reads int, got *[]uint64) *memStream {
	c := &memClient{link: link}
	st, _ := c.StreamWAL(context.Background(), &rp.WALStreamRequest{StartSequence: start, ListenerAddress: listener, ProtocolVersion: 1})
	ms := st.(*memStream)
	vsched.Go(func() {
		for n := 0; reads < 0 || n < reads; n++ {
			m, err := ms.Recv()
			if err != nil {
				return
			}
			for _, e := range m.Entries {
				*got = append(*got, e.SequenceNumber)
			}
			// a healthy replica acknowledges what it received
			if len(m.Entries) > 0 {
				if md, err := ms.Header(); err == nil {
					ctx := metadata.NewOutgoingContext(context.Background(), md)
					c.Acknowledge(ctx, &rp.Ack{AcknowledgedUpTo: m.Entries[len(m.Entries)-1].SequenceNumber})
				}
			}
		}
		// stops reading: the stream stays open, nobody consumes (a hung replica)
	})
	return ms
}

type c15Obs struct {
	Errs     []string
	Returned int
	Expected int
	Healthy  []uint64
}

// explore scenarios: client calls on the primary while a replica session misbehaves
func c15Scenarios() []*explore.Scenario {
	type opts struct{ ack, nack, lateJoin, cut bool }
	var mkx func(name string, window, reads int, healthy bool, clients [][]string, env map[string]int, o opts) *explore.Scenario
	mk := func(name string, window, reads int, healthy bool, clients [][]string, env map[string]int) *explore.Scenario {
		return mkx(name, window, reads, healthy, clients, env, opts{})
	}
	mkx = func(name string, window, reads int, healthy bool, clients [][]string, env map[string]int, o opts) *explore.Scenario {
		return &explore.Scenario{Name: name, MaxSteps: 5_000_000, EnvBudgets: env,
			Body: func() any {
				dir := filepath.Join(fw.ProcDir("c15"), "db")
				obs := &c15Obs{}
				r, err := newEngRun(dir, engCfgs["big"])
				if err != nil {
					obs.Errs = append(obs.Errs, "open: "+err.Error())
					return obs
				}
				defer r.Close()
				r.Eng.Put([]byte("a"), []byte("a0"))
				prim, err := replication.NewPrimary(r.Eng.GetWAL(), nil)
				if err != nil {
					obs.Errs = append(obs.Errs, "primary: "+err.Error())
					return obs
				}
				link := &repLink{p: prim, window: window}
				var stalledGot []uint64
				stalled := openSession(link, "stalled:1", 1, reads, &stalledGot)
				if o.ack || o.nack {
					// the stalled replica still acknowledges (its receive path is stuck, its acknowledgement path is not)
					md, err := stalled.Header()
					if err != nil {
						obs.Errs = append(obs.Errs, "header: "+err.Error())
						return obs
					}
					// staged: a write whose push is stuck in the stream (the window is full with the initial entries)
					vsched.Quiesce()
					r.Eng.Put([]byte("s"), []byte("s1"))
					vsched.Quiesce()
					vsched.GoNamed("ACK", func() {
						if o.nack {
							// the replica asks for a retransmission (its normal answer to a batch that does not continue its log)
							(&memClient{link: link}).NegativeAcknowledge(metadata.NewOutgoingContext(context.Background(), md), &rp.Nack{MissingFromSequence: 1})
							return
						}
						(&memClient{link: link}).Acknowledge(metadata.NewOutgoingContext(context.Background(), md), &rp.Ack{AcknowledgedUpTo: 1})
					})
				}
				if o.cut {
					// the replica's connection is cut abruptly while the clients run
					vsched.GoNamed("CUT", func() { stalled.cancel() })
				}
				if o.lateJoin {
					// another replica connects while the clients run
					vsched.GoNamed("JOIN", func() { openSession(&repLink{p: prim, window: 64}, "late:1", 1, 0, &obs.Healthy) })
				}
				if healthy {
					l2 := &repLink{p: prim, window: 64}
					openSession(l2, "healthy:1", 1, -1, &obs.Healthy)
				}
				var ts []*vsched.Thread
				for ci, ops := range clients {
					ci, ops := ci, ops
					obs.Expected += len(ops)
					ts = append(ts, vsched.GoNamed(fmt.Sprintf("C%d", ci+1), func() {
						for i, op := range ops {
							var err error
							switch op {
							case "put":
								err = r.Eng.Put([]byte(fmt.Sprintf("k%d", ci)), []byte(fmt.Sprintf("v%d.%d", ci, i)))
							case "flush":
								err = r.Eng.FlushImMemTables()
							case "get":
								_, err = r.Eng.Get([]byte("a"))
							case "commit":
								tx, e := r.Eng.BeginTransaction(false)
								if e == nil {
									tx.Put([]byte("t1"), []byte("x"))
									tx.Put([]byte("t2"), []byte("x"))
									e = tx.Commit()
								}
								err = e
							}
							if err != nil {
								obs.Errs = append(obs.Errs, fmt.Sprintf("%s: %v", op, err))
							}
							obs.Returned++
						}
					}))
				}
				for _, t := range ts {
					vsched.Join(t)
				}
				return obs
			},
			Check: func(s *vsched.Sched, o any) (string, string) {
				ob := o.(*c15Obs)
				if len(ob.Errs) > 0 {
					return "err", "primary-operation-failed\n" + strings.Join(ob.Errs, "; ")
				}
				return fmt.Sprintf("returned=%d", ob.Returned), ""
			}}
	}
	poll := map[string]int{"ticker:replication/primary.go": 2}
	return []*explore.Scenario{
		// the replica never reads: window 1 fills with the first pushed message
		mk("stalled-reader-puts", 1, 0, false, [][]string{{"put", "put", "put"}}, nil),
		mk("stalled-reader-put-get", 1, 0, false, [][]string{{"put", "put"}, {"get"}}, nil),
		mk("stalled-reader-commit", 1, 0, false, [][]string{{"commit", "put"}}, nil),
		// a healthy, acknowledging replica whose poll loop runs while clients write (lock order between log and session table)
		mk("polling-replica-vs-put", 64, -1, false, [][]string{{"put"}}, poll),
		mk("polling-replica-vs-commit-get", 64, -1, false, [][]string{{"commit"}, {"get"}}, poll),
		// the stalled replica's acknowledgement arrives while a send to it is stuck, and another replica connects
		// (the table's writer is the log rotation of a flush: a second session would make the iteration order of the session map observable)
		mkx("stalled-sender-ack-flush", 1, 0, false, [][]string{{"put", "flush", "get"}}, nil, opts{ack: true}),
		mkx("stalled-sender-nack-flush", 1, 0, false, [][]string{{"put", "flush", "get"}}, nil, opts{nack: true}),
		// an acknowledging replica whose connection is cut abruptly while clients write
		mkx("disconnect-vs-put", 64, 0, false, [][]string{{"put"}}, nil, opts{cut: true}),
		// (two sessions make the iteration order of the session map observable; that combination is covered by the discrete-event unit)
	}
}

// timed run: the stalled replica is dropped from the topology after the heartbeat timeout, the healthy one keeps receiving
func c15TopologyUnit(unit string, env *fw.Env) *fw.Result {
	res := fw.NewResult()
	dir := filepath.Join(fw.Scratch("c15t"), "db")
	type out struct {
		Infos   []string
		Healthy []uint64
		Errs    []string
		Writes  int
	}
	var o out
	s := vsched.Run(vsched.Config{Bound: 0, Timed: true, MaxSteps: 40_000_000, MaxTime: 120 * int64(time.Second)}, func() {
		r, err := newEngRun(dir, engCfgs["big"])
		if err != nil {
			o.Errs = append(o.Errs, "open: "+err.Error())
			return
		}
		defer r.Close()
		prim, err := replication.NewPrimary(r.Eng.GetWAL(), nil)
		if err != nil {
			o.Errs = append(o.Errs, "primary: "+err.Error())
			return
		}
		var stalledGot []uint64
		openSession(&repLink{p: prim, window: 2}, "stalled:1", 1, 1, &stalledGot)
		openSession(&repLink{p: prim, window: 64}, "healthy:1", 1, -1, &o.Healthy)
		start := vsched.Cur().Now
		for i := 0; i < 45; i++ {
			vsched.SleepUntil(start + int64(i+1)*int64(time.Second))
			if err := r.Eng.Put([]byte(fmt.Sprintf("k%d", i%3)), []byte(fmt.Sprint(i))); err != nil {
				o.Errs = append(o.Errs, fmt.Sprintf("put %d: %v", i, err))
			}
			o.Writes++
			if i%5 == 4 {
				var as []string
				for _, ri := range prim.GetReplicaInfo() {
					as = append(as, ri.Address)
				}
				o.Infos = append(o.Infos, fmt.Sprintf("t=%ds %v", i+1, as))
			}
		}
		vsched.SleepUntil(start + 50*int64(time.Second))
		prim.Close()
	})
	res.Evaluations++
	res.Nontrivial++
	res.States++
	res.Transitions += s.Steps
	res.Traces++
	viol := func(class, what string) {
		res.Violate(fw.FP("C15", "topology", class), class+"\n"+what, unit, map[string]any{"kind": "topology", "infos": o.Infos})
	}
	if s.Out != vsched.OK {
		viol("primary-stalled-"+s.Out.String(), fmt.Sprintf("with one replica that stops reading after 1 message the primary's writer did not finish 45 writes in 120 virtual seconds (%d done): %s", o.Writes, clipS(s.Detail, 700)))
		return res
	}
	if len(o.Errs) > 0 {
		viol("primary-operation-failed", strings.Join(o.Errs, "; "))
	}
	last := ""
	if len(o.Infos) > 0 {
		last = o.Infos[len(o.Infos)-1]
	}
	if strings.Contains(last, "stalled:1") {
		viol("stalled-replica-not-dropped", "45 s after it stopped reading (heartbeat timeout 30 s) the stalled replica is still reported: "+strings.Join(o.Infos, " | "))
	}
	if !strings.Contains(last, "healthy:1") {
		viol("healthy-replica-dropped", "the healthy replica disappeared from the topology: "+strings.Join(o.Infos, " | "))
	}
	var maxH uint64
	for _, x := range o.Healthy {
		if x > maxH {
			maxH = x
		}
	}
	if maxH < uint64(o.Writes) {
		viol("healthy-replica-starved", fmt.Sprintf("the healthy replica received entries up to sequence %d only; the primary wrote %d", maxH, o.Writes+1))
	}
	res.Sample(map[string]any{"topology_over_time": o.Infos, "healthy_received_up_to": maxH})
	return res
}

func init() {
	fw.Register(&fw.Check{
		ID: "C15", Level: "model_checking",
		Rule: "the real replication.Primary on a real engine (registered as log observer) with replica sessions over an in-memory stream of bounded window; (A) stateless exploration, all interleavings up to the deviation bound (1 quick, 2 thorough): a replica that never reads (window 1) while clients put / get / commit; a healthy acknowledging replica whose poll loop (ticker as environment event) runs while clients write; a replica connection cut abruptly while a client puts (thorough tier only, one deviation); an acknowledgement, or a retransmission request, for the stuck session followed by a client put, flush (log rotation) and get. Oracle: in every schedule every client call returns and returns nil - a client thread that waits, directly or through a lock chain, on a stream send or on a lock held by a replication thread shows up as the scheduler's deadlock witness. " +
			"(B) discrete-event run: one replica stops reading after 1 message, one stays healthy, 45 writes over 45 s: the writer finishes, the stalled session has left GetReplicaInfo by t=45 s (heartbeat timeout 30 s), the healthy one is still listed and has received every write. Non-trivial = executions with a cross-thread conflict",
		Assumptions: []string{"'normal time' is decided as absence of a blocking dependency on the replica (virtual time), not as a latency figure", "gRPC flow control is modelled by a bounded in-memory window"},
		Units: func(tier string) []string {
			us := []string{"topology"}
			b := 1
			if tier == "thorough" {
				b = 2
			}
			for _, sc := range c15Scenarios() {
				if sc.Name == "disconnect-vs-put" && tier != "thorough" {
					continue // ~300k executions at bound 1: thorough tier only
				}
				n := 8
				if b == 2 {
					n = 16
				}
				if sc.Name == "disconnect-vs-put" {
					us = append(us, shardUnits(sc.Name, 1, 16)...) // complete at one deviation; two do not fit the budget
					continue
				}
				us = append(us, shardUnits(sc.Name, b, n)...)
			}
			return us
		},
		Run: func(unit string, env *fw.Env) *fw.Result {
			if unit == "topology" {
				return c15TopologyUnit(unit, env)
			}
			sp := parseSched(unit)
			for _, sc := range c15Scenarios() {
				if sc.Name == sp.Name {
					return runSched("C15", sc, sp, env, 1)
				}
			}
			r := fw.NewResult()
			r.HarnessErr = "unknown unit " + unit
			return r
		},
		Replay: func(v *fw.Violation) string {
			if w, ok := v.Witness.(map[string]any); ok && w["kind"] == "schedule" {
				return replaySched(FindScenario, v)
			}
			b, _ := json.Marshal(v.Witness)
			return "re-run: kvcheck one C15 quick " + v.Unit + "\nwitness: " + string(b)
		},
		BudgetQuick: 150, BudgetThorough: 900,
	})
}
