// Package vatomic replaces "sync/atomic" in instrumented kevo files.
package vatomic

import (
	"sync/atomic"
	"unsafe"

	"github.com/KevoDB/kevo/pkg/zzverif/vsched"
)

func pt(addr unsafe.Pointer, write bool) {
	if !vsched.Active() {
		if vsched.Poisoned() {
			return
		}
		return
	}
	s := vsched.Cur()
	k := vsched.KAtomicR
	if write {
		k = vsched.KAtomicW
	}
	vsched.Point(&vsched.Op{Kind: k, Obj: s.ObjFor(uintptr(addr), "atomic"), Write: write})
}

type Bool struct{ v atomic.Bool }

func (x *Bool) Load() bool   { pt(unsafe.Pointer(x), false); return x.v.Load() }
func (x *Bool) Store(b bool) { pt(unsafe.Pointer(x), true); x.v.Store(b) }
func (x *Bool) Swap(b bool) bool {
	pt(unsafe.Pointer(x), true)
	return x.v.Swap(b)
}
func (x *Bool) CompareAndSwap(o, n bool) bool {
	pt(unsafe.Pointer(x), true)
	return x.v.CompareAndSwap(o, n)
}

type Int32 struct{ v atomic.Int32 }

func (x *Int32) Load() int32         { pt(unsafe.Pointer(x), false); return x.v.Load() }
func (x *Int32) Store(b int32)       { pt(unsafe.Pointer(x), true); x.v.Store(b) }
func (x *Int32) Add(d int32) int32   { pt(unsafe.Pointer(x), true); return x.v.Add(d) }
func (x *Int32) Swap(b int32) int32  { pt(unsafe.Pointer(x), true); return x.v.Swap(b) }
func (x *Int32) CompareAndSwap(o, n int32) bool {
	pt(unsafe.Pointer(x), true)
	return x.v.CompareAndSwap(o, n)
}

type Uint32 struct{ v atomic.Uint32 }

func (x *Uint32) Load() uint32          { pt(unsafe.Pointer(x), false); return x.v.Load() }
func (x *Uint32) Store(b uint32)        { pt(unsafe.Pointer(x), true); x.v.Store(b) }
func (x *Uint32) Add(d uint32) uint32   { pt(unsafe.Pointer(x), true); return x.v.Add(d) }
func (x *Uint32) Swap(b uint32) uint32  { pt(unsafe.Pointer(x), true); return x.v.Swap(b) }
func (x *Uint32) CompareAndSwap(o, n uint32) bool {
	pt(unsafe.Pointer(x), true)
	return x.v.CompareAndSwap(o, n)
}

type Int64 struct{ v atomic.Int64 }

func (x *Int64) Load() int64         { pt(unsafe.Pointer(x), false); return x.v.Load() }
func (x *Int64) Store(b int64)       { pt(unsafe.Pointer(x), true); x.v.Store(b) }
func (x *Int64) Add(d int64) int64   { pt(unsafe.Pointer(x), true); return x.v.Add(d) }
func (x *Int64) Swap(b int64) int64  { pt(unsafe.Pointer(x), true); return x.v.Swap(b) }
func (x *Int64) CompareAndSwap(o, n int64) bool {
	pt(unsafe.Pointer(x), true)
	return x.v.CompareAndSwap(o, n)
}

type Uint64 struct{ v atomic.Uint64 }

func (x *Uint64) Load() uint64          { pt(unsafe.Pointer(x), false); return x.v.Load() }
func (x *Uint64) Store(b uint64)        { pt(unsafe.Pointer(x), true); x.v.Store(b) }
func (x *Uint64) Add(d uint64) uint64   { pt(unsafe.Pointer(x), true); return x.v.Add(d) }
func (x *Uint64) Swap(b uint64) uint64  { pt(unsafe.Pointer(x), true); return x.v.Swap(b) }
func (x *Uint64) CompareAndSwap(o, n uint64) bool {
	pt(unsafe.Pointer(x), true)
	return x.v.CompareAndSwap(o, n)
}

type Pointer[T any] struct{ v atomic.Pointer[T] }

func (x *Pointer[T]) Load() *T     { pt(unsafe.Pointer(x), false); return x.v.Load() }
func (x *Pointer[T]) Store(p *T)   { pt(unsafe.Pointer(x), true); x.v.Store(p) }
func (x *Pointer[T]) Swap(p *T) *T { pt(unsafe.Pointer(x), true); return x.v.Swap(p) }
func (x *Pointer[T]) CompareAndSwap(o, n *T) bool {
	pt(unsafe.Pointer(x), true)
	return x.v.CompareAndSwap(o, n)
}

type Value = atomic.Value

func LoadInt32(p *int32) int32       { pt(unsafe.Pointer(p), false); return atomic.LoadInt32(p) }
func LoadInt64(p *int64) int64       { pt(unsafe.Pointer(p), false); return atomic.LoadInt64(p) }
func LoadUint32(p *uint32) uint32    { pt(unsafe.Pointer(p), false); return atomic.LoadUint32(p) }
func LoadUint64(p *uint64) uint64    { pt(unsafe.Pointer(p), false); return atomic.LoadUint64(p) }
func StoreInt32(p *int32, v int32)   { pt(unsafe.Pointer(p), true); atomic.StoreInt32(p, v) }
func StoreInt64(p *int64, v int64)   { pt(unsafe.Pointer(p), true); atomic.StoreInt64(p, v) }
func StoreUint32(p *uint32, v uint32) { pt(unsafe.Pointer(p), true); atomic.StoreUint32(p, v) }
func StoreUint64(p *uint64, v uint64) { pt(unsafe.Pointer(p), true); atomic.StoreUint64(p, v) }
func AddInt32(p *int32, d int32) int32 { pt(unsafe.Pointer(p), true); return atomic.AddInt32(p, d) }
func AddInt64(p *int64, d int64) int64 { pt(unsafe.Pointer(p), true); return atomic.AddInt64(p, d) }
func AddUint32(p *uint32, d uint32) uint32 {
	pt(unsafe.Pointer(p), true)
	return atomic.AddUint32(p, d)
}
func AddUint64(p *uint64, d uint64) uint64 {
	pt(unsafe.Pointer(p), true)
	return atomic.AddUint64(p, d)
}
func SwapInt32(p *int32, v int32) int32 { pt(unsafe.Pointer(p), true); return atomic.SwapInt32(p, v) }
func SwapInt64(p *int64, v int64) int64 { pt(unsafe.Pointer(p), true); return atomic.SwapInt64(p, v) }
func SwapUint64(p *uint64, v uint64) uint64 {
	pt(unsafe.Pointer(p), true)
	return atomic.SwapUint64(p, v)
}
func CompareAndSwapInt32(p *int32, o, n int32) bool {
	pt(unsafe.Pointer(p), true)
	return atomic.CompareAndSwapInt32(p, o, n)
}
func CompareAndSwapInt64(p *int64, o, n int64) bool {
	pt(unsafe.Pointer(p), true)
	return atomic.CompareAndSwapInt64(p, o, n)
}
func CompareAndSwapUint32(p *uint32, o, n uint32) bool {
	pt(unsafe.Pointer(p), true)
	return atomic.CompareAndSwapUint32(p, o, n)
}
func CompareAndSwapUint64(p *uint64, o, n uint64) bool {
	pt(unsafe.Pointer(p), true)
	return atomic.CompareAndSwapUint64(p, o, n)
}
func LoadPointer(p *unsafe.Pointer) unsafe.Pointer {
	pt(unsafe.Pointer(p), false)
	return atomic.LoadPointer(p)
}
func StorePointer(p *unsafe.Pointer, v unsafe.Pointer) {
	pt(unsafe.Pointer(p), true)
	atomic.StorePointer(p, v)
}
func SwapPointer(p *unsafe.Pointer, v unsafe.Pointer) unsafe.Pointer {
	pt(unsafe.Pointer(p), true)
	return atomic.SwapPointer(p, v)
}
func CompareAndSwapPointer(p *unsafe.Pointer, o, n unsafe.Pointer) bool {
	pt(unsafe.Pointer(p), true)
	return atomic.CompareAndSwapPointer(p, o, n)
}
