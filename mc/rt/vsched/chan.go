package vsched

import (
	"fmt"
	"reflect"
)

// Channel model: kevo only uses buffered or close-only channels. Under the
// cooperative scheduler exactly one managed thread runs at a time, so the real
// channel's len/cap are a faithful model state; closedness is tracked through
// Close and, for channels closed by uninstrumented code (context), by a
// non-destructive probe (only attempted when len==0).

func chanObj(s *Sched, ch any) *Obj {
	p := reflect.ValueOf(ch).Pointer()
	return s.ObjFor(p, "chan")
}

func isClosed(s *Sched, ch reflect.Value) bool {
	p := ch.Pointer()
	if ch.Type().ChanDir()&reflect.RecvDir == 0 {
		// send-only view: closedness is only known from Close calls seen by the scheduler. (The table is keyed by
		// address; it is not consulted for receivable channels because addresses are reused after collection.)
		if c, ok := s.Vals["closed"]; ok {
			return c.(map[uintptr]bool)[p]
		}
		return false
	}
	if ch.Len() > 0 {
		return false
	}
	// probe: with len==0 and no concurrent sender a successful receive means closed
	i, _, ok := reflect.Select([]reflect.SelectCase{{Dir: reflect.SelectRecv, Chan: ch}, {Dir: reflect.SelectDefault}})
	if i == 0 {
		if ok {
			panic("vsched: probe consumed a value from an empty channel (unmanaged sender?)")
		}
		markClosed(s, p)
		return true
	}
	return false
}

func markClosed(s *Sched, p uintptr) {
	c, ok := s.Vals["closed"]
	if !ok {
		c = map[uintptr]bool{}
		s.Vals["closed"] = c
	}
	c.(map[uintptr]bool)[p] = true
}

func recvReady(s *Sched, ch reflect.Value) bool {
	if ch.IsNil() {
		return false
	}
	return ch.Len() > 0 || isClosed(s, ch)
}

func sendReady(s *Sched, ch reflect.Value) bool {
	if ch.IsNil() {
		return false
	}
	if ch.Cap() == 0 {
		if isClosed(s, ch) {
			return true
		}
		panic("HARNESS-ERROR: send on unbuffered channel is not modelled")
	}
	return ch.Len() < ch.Cap() || isClosed(s, ch)
}

// Send performs ch <- v.
func Send[T any](ch chan<- T, v T) {
	s := cur
	if s == nil {
		ch <- v
		return
	}
	if s.poison {
		panic(poisonExit{})
	}
	rv := reflect.ValueOf(ch)
	Point(&Op{Kind: KSend, Obj: chanObj(s, ch), Write: true, Enabled: func() bool { return sendReady(s, rv) }, Site: Site()})
	select {
	case ch <- v:
	default:
		panic("vsched: granted send would block")
	}
}

// Recv performs <-ch.
func Recv[T any](ch <-chan T) T {
	v, _ := Recv2(ch)
	return v
}

// Recv2 performs v, ok := <-ch.
func Recv2[T any](ch <-chan T) (T, bool) {
	s := cur
	if s == nil {
		v, ok := <-ch
		return v, ok
	}
	if s.poison {
		panic(poisonExit{})
	}
	rv := reflect.ValueOf(ch)
	Point(&Op{Kind: KRecv, Obj: chanObj(s, ch), Write: true, Enabled: func() bool { return recvReady(s, rv) }, Site: Site()})
	select {
	case v, ok := <-ch:
		return v, ok
	default:
		panic("vsched: granted receive would block")
	}
}

// Close performs close(ch).
func Close[T any](ch chan<- T) {
	s := cur
	if s == nil {
		close(ch)
		return
	}
	if s.poison {
		return
	}
	Point(&Op{Kind: KClose, Obj: chanObj(s, ch), Write: true, Site: Site()})
	markClosed(s, reflect.ValueOf(ch).Pointer())
	close(ch)
}

// Case is one communication clause of a select.
type Case interface {
	ready(s *Sched) bool
	perform()
	rch() reflect.Value
}

// RecvCase is `case v, ok := <-ch`.
type RecvCase[T any] struct {
	ch  <-chan T
	val T
	ok  bool
}

func CaseRecv[T any](ch <-chan T) *RecvCase[T] { return &RecvCase[T]{ch: ch} }
func (c *RecvCase[T]) Val() T                  { return c.val }
func (c *RecvCase[T]) Ok() bool                { return c.ok }
func (c *RecvCase[T]) rch() reflect.Value      { return reflect.ValueOf(c.ch) }
func (c *RecvCase[T]) ready(s *Sched) bool     { return recvReady(s, reflect.ValueOf(c.ch)) }
func (c *RecvCase[T]) perform() {
	select {
	case v, ok := <-c.ch:
		c.val, c.ok = v, ok
	default:
		panic("vsched: granted select-receive would block")
	}
}

// SendCase is `case ch <- v`.
type SendCase[T any] struct {
	ch chan<- T
	v  T
}

func CaseSend[T any](ch chan<- T, v T) *SendCase[T] { return &SendCase[T]{ch: ch, v: v} }
func (c *SendCase[T]) rch() reflect.Value            { return reflect.ValueOf(c.ch) }
func (c *SendCase[T]) ready(s *Sched) bool           { return sendReady(s, reflect.ValueOf(c.ch)) }
func (c *SendCase[T]) perform() {
	select {
	case c.ch <- c.v:
	default:
		panic("vsched: granted select-send would block")
	}
}

// Select chooses among the cases; returns the index of the chosen case or -1 for default.
func Select(hasDefault bool, cases ...Case) int {
	s := cur
	if s == nil {
		return realSelect(hasDefault, cases)
	}
	if s.poison {
		panic(poisonExit{})
	}
	readyIdx := func() []int {
		var r []int
		for i, c := range cases {
			if c.ready(s) {
				r = append(r, i)
			}
		}
		return r
	}
	// all channels of the select are touched: use one combined object per select site is
	// too coarse; record the chosen channel after the grant.
	op := &Op{Kind: KSelect, Site: Site()}
	op.Enabled = func() bool { return hasDefault || len(readyIdx()) > 0 }
	op.Alts = func() int {
		n := len(readyIdx())
		if n == 0 {
			return 1
		}
		return n
	}
	sub := Point(op)
	r := readyIdx()
	if len(r) == 0 {
		if !hasDefault {
			panic("vsched: select granted with no ready case")
		}
		for _, c := range cases {
			if rc := c.rch(); !rc.IsNil() {
				Touch(s.ObjFor(rc.Pointer(), "chan"), KSelect, false)
			}
		}
		return -1
	}
	if sub >= len(r) {
		panic(fmt.Sprintf("vsched: select alternative %d of %d", sub, len(r)))
	}
	i := r[sub]
	for j, c := range cases {
		if rc := c.rch(); !rc.IsNil() {
			Touch(s.ObjFor(rc.Pointer(), "chan"), KSelect, j == i)
		}
	}
	cases[i].perform()
	return i
}

func realSelect(hasDefault bool, cases []Case) int {
	// pass-through: real blocking select through reflection
	sc := make([]reflect.SelectCase, 0, len(cases)+1)
	for _, c := range cases {
		switch x := c.(type) {
		case interface{ sendVal() reflect.Value }:
			sc = append(sc, reflect.SelectCase{Dir: reflect.SelectSend, Chan: c.rch(), Send: x.sendVal()})
		default:
			sc = append(sc, reflect.SelectCase{Dir: reflect.SelectRecv, Chan: c.rch()})
		}
	}
	if hasDefault {
		sc = append(sc, reflect.SelectCase{Dir: reflect.SelectDefault})
	}
	i, v, ok := reflect.Select(sc)
	if hasDefault && i == len(cases) {
		return -1
	}
	if r, isRecv := cases[i].(interface{ setRecv(reflect.Value, bool) }); isRecv {
		r.setRecv(v, ok)
	}
	return i
}

func (c *SendCase[T]) sendVal() reflect.Value { return reflect.ValueOf(&c.v).Elem() }
func (c *RecvCase[T]) setRecv(v reflect.Value, ok bool) {
	c.ok = ok
	if ok {
		reflect.ValueOf(&c.val).Elem().Set(v)
	}
}
