// Package vsched is the controlled cooperative scheduler injected into the
// kevo module (import path github.com/KevoDB/kevo/pkg/zzverif/vsched) by the
// overlay build. When no scheduler is installed every entry point delegates to
// the real primitive (pass-through mode), so one binary serves controlled and
// free-running runs.
package vsched

import (
	"fmt"
	"runtime"
	"runtime/debug"
	"sort"
	"strings"
	"sync"
)

// Outcome of one execution.
type Outcome int

const (
	OK Outcome = iota
	Deadlock
	Livelock
	Horizon
	Panic
	Cached // cut by the happens-before cache: continuation already explored
	Diverged
)

func (o Outcome) String() string {
	return [...]string{"ok", "deadlock", "livelock", "horizon", "panic", "cached", "diverged"}[o]
}

// Kind of a visible operation.
type Kind uint8

const (
	KLock Kind = iota + 1
	KRLock
	KAnnounce
	KUnlock
	KRUnlock
	KAtomicR
	KAtomicW
	KWgWait
	KWgAdd
	KOnce
	KSend
	KRecv
	KClose
	KSelect
	KSleep
	KGo
	KExit
	KFSR
	KFSW
	KCall
	KRet
	KEnv
	KYield
	KJoin
)

// Obj is the model-side identity of a synchronisation object.
type Obj struct {
	name uint64
	w, r vc
	desc string
}

type vc map[uint64]uint32 // thread-name-hash -> count

func (a vc) join(b vc) {
	for k, v := range b {
		if a[k] < v {
			a[k] = v
		}
	}
}
func (a vc) clone() vc {
	c := make(vc, len(a)+1)
	for k, v := range a {
		c[k] = v
	}
	return c
}
func (a vc) hash() uint64 {
	var h uint64
	for k, v := range a {
		h += mix(k, uint64(v))
	}
	return h
}

func mix(a, b uint64) uint64 {
	x := a*0x9E3779B97F4A7C15 ^ (b + 0xBF58476D1CE4E5B9)
	x ^= x >> 30
	x *= 0xBF58476D1CE4E5B9
	x ^= x >> 27
	x *= 0x94D049BB133111EB
	x ^= x >> 31
	return x
}

func hashStr(s string) uint64 {
	var h uint64 = 1469598103934665603
	for i := 0; i < len(s); i++ {
		h ^= uint64(s[i])
		h *= 1099511628211
	}
	return h
}

// Op is a pending visible operation.
type Op struct {
	Kind    Kind
	Obj     *Obj
	Write   bool
	Enabled func() bool // nil: always enabled
	// select: number of currently enabled alternatives (>=1 when enabled)
	Alts func() int
	Site string
}

// BlockedClass is the canonical identity of a deadlock: which kinds of operations in which functions the threads
// are blocked in (function names, not line numbers; idle loops waiting in select, joins and sleeps are left out).
func (s *Sched) BlockedClass() string {
	set := map[string]bool{}
	for _, th := range s.threads {
		if th.done || th.pending == nil {
			continue
		}
		switch th.pending.Kind {
		case KLock, KRLock, KSend, KRecv, KWgWait, KAnnounce:
			set[kindName(th.pending.Kind)+"@"+siteFunc(th.pending.Site)] = true
		}
	}
	var parts []string
	for k := range set {
		parts = append(parts, k)
	}
	sort.Strings(parts)
	return strings.Join(parts, ",")
}

func siteFunc(site string) string {
	if i := strings.Index(site, " "); i >= 0 {
		return site[i+1:]
	}
	return site
}

// Thread is a managed goroutine.
type Thread struct {
	ID      int
	Name    string
	nameH   uint64
	wake    chan struct{}
	pending *Op
	done    bool
	Daemon  bool
	yielded bool // set by Sleep/Yield; cleared when another thread steps
	spawned int
	objs    int
	clock   vc
	steps   int
	WakeAt  int64 // timed mode: a sleeping thread becomes enabled at this virtual time
	chosen  int // alternative chosen for a select
	decided bool // chosen at a decision point: record the post-operation state key
	blockedSince int
	free         chan struct{} // pass-through mode (no scheduler): closed when the goroutine has finished
}

// PointInfo describes one decision point for the explorer.
type PointInfo struct {
	N        int   // number of alternatives
	Costs    []int // deviation cost of each alternative
	CumCost  int   // cost accumulated before this point
	Desc     []string
	PostKeys [][2]uint64 // predicted state key right after each alternative (zero: not predictable)
}

// Env is an environment event source (ticker fire, timer expiry, clock jump ...).
type Env struct {
	Name    string
	nameH   uint64
	Budget  int
	Enabled func() bool
	Fire    func()
	obj     *Obj
	fired   int
	clock   vc
	Due     func() int64 // timed mode: absolute due time (ns)
}

// Cache is the happens-before state cache shared by the executions of one search.
type Cache struct {
	m map[[2]uint64]int
	// p: states right after the operation chosen at a decision point (hash after the operation, thread+alternative)
	p    map[[2]uint64]int
	Hits int
}

func NewCache() *Cache { return &Cache{m: map[[2]uint64]int{}, p: map[[2]uint64]int{}} }

// PostSeen reports whether the state reached by an alternative was already explored with at least rem budget.
func (c *Cache) PostSeen(key [2]uint64, rem int) bool {
	if key == ([2]uint64{}) {
		return false
	}
	old, ok := c.p[key]
	return ok && old >= rem
}
func (c *Cache) Len() int { return len(c.m) }

// Sched is one controlled execution.
type Sched struct {
	threads  []*Thread
	running  *Thread
	envs     []*Env
	Prefix   []int
	Choices  []int
	Points   []PointInfo
	cost     int
	Bound    int // deviation bound (<0: unbounded)
	MaxSteps int
	Steps    int
	poison   bool
	Out      Outcome
	Detail   string
	Class    string // canonical class of a deadlock / livelock (for fingerprints)
	hash     uint64
	cache    *Cache
	wg       sync.WaitGroup // real: all managed goroutines
	finished chan struct{}
	objs     map[any]*Obj
	Trace    []string // optional op trace (when TraceOn)
	TraceOn  bool
	Conflicts int // number of steps whose object was last written by another thread
	yieldRun int
	Now      int64 // virtual clock (ns)
	rootObjs int
	Vals     map[string]any // per-execution scratch for shims
	EnvDefault int // default budget for env sources
	EnvBudgets map[string]int
	NoEnv    bool
	Timed    bool
	maxNow   int64
}

var cur *Sched

// Active reports whether a controlled execution is in progress.
func Active() bool { return cur != nil && !cur.poison }

// Installed reports whether a scheduler is installed (even when poisoned).
func Installed() bool { return cur != nil }

// Poisoned: execution is being torn down; shims must be inert.
func Poisoned() bool { return cur != nil && cur.poison }

// Cur returns the installed scheduler.
func Cur() *Sched { return cur }

// Config for Run.
type Config struct {
	Prefix   []int
	Bound    int
	MaxSteps int
	Cache    *Cache
	Trace    bool
	EnvBudget int
	EnvBudgets map[string]int // substring of env name -> budget (overrides EnvBudget)
	NoEnv    bool
	StartTime int64 // virtual clock start (ns); 0 = fixed default (executions of one scenario must start alike)
	// Timed: discrete-event mode. Timers, tickers, deadlines and sleeps carry due times; they are not explored
	// as alternatives but fire in due-time order whenever no thread can run (the virtual clock jumps to the
	// earliest due time). Used for fair deterministic executions of whole protocols.
	Timed bool
	// MaxTime (timed mode): the execution is aborted with outcome Horizon when the virtual clock passes start+MaxTime.
	MaxTime int64
}

// Run executes body as thread 0 under a fresh scheduler and returns it after the
// execution ended and all managed goroutines have gone.
// OnRun, when set, is called at the start of every controlled execution (liveness beat for the framework's stall watchdog).
var OnRun func()

func Run(cfg Config, body func()) *Sched {
	if OnRun != nil {
		OnRun()
	}
	s := &Sched{Prefix: cfg.Prefix, Bound: cfg.Bound, MaxSteps: cfg.MaxSteps, cache: cfg.Cache,
		finished: make(chan struct{}), objs: map[any]*Obj{}, TraceOn: cfg.Trace, Vals: map[string]any{},
		Now: 1_700_000_000_000_000_000, EnvDefault: cfg.EnvBudget, EnvBudgets: cfg.EnvBudgets, NoEnv: cfg.NoEnv, Timed: cfg.Timed}
	if s.MaxSteps == 0 {
		s.MaxSteps = 200000
	}
	if cfg.StartTime != 0 {
		s.Now = cfg.StartTime
	}
	if cfg.MaxTime > 0 {
		s.maxNow = s.Now + cfg.MaxTime
	}
	if cur != nil {
		panic("vsched: nested Run")
	}
	cur = s
	t0 := s.newThread("T", nil)
	s.running = t0
	s.wg.Add(1)
	go s.threadMain(t0, body, true)
	t0.wake <- struct{}{}
	<-s.finished
	s.wg.Wait()
	cur = nil
	return s
}

func (s *Sched) newThread(name string, parent *Thread) *Thread {
	t := &Thread{ID: len(s.threads), Name: name, nameH: hashStr(name), wake: make(chan struct{}, 1), clock: vc{}, pending: &Op{Kind: KGo}}
	if parent != nil {
		t.clock = parent.clock.clone()
	}
	s.threads = append(s.threads, t)
	return t
}

type poisonExit struct{}

func (s *Sched) threadMain(t *Thread, body func(), root bool) {
	defer s.wg.Done()
	<-t.wake
	if s.poison {
		return
	}
	defer func() {
		if r := recover(); r != nil {
			if _, ok := r.(poisonExit); ok {
				return
			}
			// a panic in managed code: record and end the execution
			if !s.poison {
				s.Out = Panic
				s.Detail = fmt.Sprintf("panic in %s: %v\n%s", t.Name, r, trimStack(debug.Stack()))
				s.abort()
			}
			return
		}
	}()
	body()
	if s.poison {
		return
	}
	// thread exit
	t.done = true
	t.pending = nil
	if root {
		// execution complete
		s.abort()
		return
	}
	s.commit(t, &Op{Kind: KExit})
	s.handoff(t, true)
}

func trimStack(b []byte) string {
	lines := strings.Split(string(b), "\n")
	var out []string
	for _, l := range lines {
		if strings.Contains(l, "zzverif") || strings.Contains(l, "runtime/") {
			continue
		}
		out = append(out, l)
		if len(out) > 24 {
			break
		}
	}
	return strings.Join(out, "\n")
}

// abort ends the execution: poison everything and wake all parked threads so
// they unwind. Called by the running thread.
func (s *Sched) abort() {
	if s.poison {
		return
	}
	s.poison = true
	for _, t := range s.threads {
		if t != s.running && !t.done {
			select {
			case t.wake <- struct{}{}:
			default:
			}
		}
	}
	close(s.finished)
}

// exitIfPoisoned unwinds the calling goroutine when the execution is over.
func exitIfPoisoned() {
	if cur != nil && cur.poison {
		panic(poisonExit{})
	}
}

// Go starts f as a managed thread (or a plain goroutine in pass-through mode).
func Go(f func()) {
	s := cur
	if s == nil {
		go f()
		return
	}
	if s.poison {
		return
	}
	p := s.running
	p.spawned++
	t := s.newThread(fmt.Sprintf("%s.%d", p.Name, p.spawned), p)
	t.Daemon = true
	s.wg.Add(1)
	go s.threadMain(t, f, false)
	s.commit(p, &Op{Kind: KGo})
}

// GoNamed is Go for harness client threads (non-daemon).
func GoNamed(name string, f func()) *Thread {
	s := cur
	if s == nil {
		// pass-through mode (free-running race pass): a plain goroutine
		t := &Thread{Name: name, free: make(chan struct{})}
		go func() {
			defer close(t.free)
			f()
		}()
		return t
	}
	p := s.running
	p.spawned++
	t := s.newThread(name, p)
	s.wg.Add(1)
	go s.threadMain(t, f, false)
	s.commit(p, &Op{Kind: KGo})
	return t
}

// Join blocks until t has finished.
func Join(t *Thread) {
	s := cur
	if s == nil && t != nil && t.free != nil {
		<-t.free
		return
	}
	if s == nil || s.poison {
		return
	}
	Point(&Op{Kind: KJoin, Enabled: func() bool { return t.done }})
	me := s.running
	me.clock.join(t.clock)
}

// ObjFor returns the model object for key (pointer identity), creating it on first use.
func (s *Sched) ObjFor(key any, desc string) *Obj {
	if o, ok := s.objs[key]; ok {
		return o
	}
	t := s.running
	t.objs++
	o := &Obj{name: mix(t.nameH, uint64(t.objs)), w: vc{}, r: vc{}, desc: desc}
	s.objs[key] = o
	return o
}

// NewObj creates an anonymous object owned by the caller (stored in the shim value).
func NewObj(desc string) *Obj {
	s := cur
	t := s.running
	t.objs++
	return &Obj{name: mix(t.nameH, uint64(t.objs)), w: vc{}, r: vc{}, desc: desc}
}

func (s *Sched) enabled(t *Thread) bool {
	if t.done || t.pending == nil {
		return false
	}
	if t.pending.Enabled == nil {
		return true
	}
	return t.pending.Enabled()
}

type alt struct {
	t   *Thread
	e   *Env
	sub int
}

// Point is called by the running thread before a visible operation. It returns
// after the scheduler granted the operation (the model effect is applied by the
// caller right after Point returns; no other thread runs in between).
// For selects the chosen alternative index (among enabled alternatives) is returned.
func Point(op *Op) int {
	s := cur
	if s == nil {
		return 0
	}
	if s.poison {
		panic(poisonExit{})
	}
	t := s.running
	t.pending = op
	t.blockedSince = s.Steps
	s.handoff(t, false)
	// granted
	sub := t.chosen
	t.pending = nil
	s.commit(t, op)
	if t.decided {
		t.decided = false
		if s.cache != nil && op.Kind != KSleep && op.Kind != KYield {
			rem := 1 << 20
			if s.Bound >= 0 {
				rem = s.Bound - s.cost
			}
			key := [2]uint64{s.hash, s.postSig(t, sub)}
			if old, ok := s.cache.p[key]; !ok || old < rem {
				s.cache.p[key] = rem
			}
		}
	}
	return sub
}

// handoff picks the next thread to run. If exiting, the caller does not wait.
func (s *Sched) handoff(t *Thread, exiting bool) {
	for {
		next, sub, env := s.pick(t, exiting)
		if s.poison {
			if exiting {
				return
			}
			panic(poisonExit{})
		}
		if env != nil {
			// environment event: perform inline, then decide again
			env.fired++
			env.Fire()
			s.commitEnv(env)
			continue
		}
		next.chosen = sub
		if next == t && !exiting {
			return
		}
		s.running = next
		next.wake <- struct{}{}
		if exiting {
			return
		}
		<-t.wake
		if s.poison {
			panic(poisonExit{})
		}
		return
	}
}

func (s *Sched) pick(t *Thread, exiting bool) (*Thread, int, *Env) {
	s.Steps++
	if s.Steps > s.MaxSteps {
		s.Out = Horizon
		s.Detail = fmt.Sprintf("step horizon %d exceeded", s.MaxSteps)
		s.abort()
		return nil, 0, nil
	}
	// collect alternatives in canonical order: current first, then ascending id, then envs
	var alts []alt
	var costs []int
	curEnabled := !exiting && s.enabled(t) && !t.yielded
	add := func(th *Thread) {
		n := 1
		if th.pending.Alts != nil {
			n = th.pending.Alts()
		}
		for k := 0; k < n; k++ {
			c := 0
			if th != t && curEnabled {
				c++ // preemption
			}
			if k > 0 {
				c++ // non-first ready select case
			}
			alts = append(alts, alt{t: th, sub: k})
			costs = append(costs, c)
		}
	}
	if curEnabled {
		add(t)
	}
	for _, th := range s.threads {
		if th == t && !exiting {
			continue
		}
		if th.done || th.yielded {
			continue
		}
		if s.enabled(th) {
			add(th)
		}
	}
	if len(alts) == 0 {
		// only yielders (or nothing) left: wake yielders (fair rule)
		var ys []*Thread
		for _, th := range s.threads {
			if !th.done && th.yielded && s.enabled(th) {
				ys = append(ys, th)
			}
		}
		if len(ys) > 0 {
			s.yieldRun++
			if s.yieldRun > 200 {
				s.Out = Livelock
				s.Class = s.BlockedClass()
				s.Detail = "only yielding threads enabled for 200 consecutive decisions: " + s.describeBlocked()
				s.abort()
				return nil, 0, nil
			}
			// run the yielder that is current if any, else lowest id; no branching among pure yielders
			pickT := ys[0]
			for _, y := range ys {
				if y == t && !exiting {
					pickT = y
				}
			}
			pickT.yielded = false
			// other yielders stay yielded until someone steps (commit clears flags)
			return pickT, 0, nil
		}
	}
	if s.Timed && len(alts) == 0 {
		// discrete-event step: nothing can run, so time passes until the earliest sleeper or timer is due
		var bestT int64 = -1
		var bestEnv *Env
		for _, th := range s.threads {
			if !th.done && th.WakeAt > 0 && th.pending != nil && th.pending.Kind == KSleep {
				if bestT < 0 || th.WakeAt < bestT {
					bestT, bestEnv = th.WakeAt, nil
				}
			}
		}
		for _, e := range s.envs {
			if e.Due != nil && e.Budget > 0 && (e.Enabled == nil || e.Enabled()) {
				if d := e.Due(); bestT < 0 || d < bestT {
					bestT, bestEnv = d, e
				}
			}
		}
		if bestT >= 0 {
			if s.maxNow > 0 && bestT > s.maxNow {
				s.Out = Horizon
				s.Class = s.BlockedClass()
				s.Detail = "virtual time limit reached; threads: " + s.describeBlocked()
				s.abort()
				return nil, 0, nil
			}
			if bestT > s.Now {
				s.Now = bestT
			}
			if bestEnv != nil {
				return nil, 0, bestEnv
			}
			// a sleeper is due now: decide again
			s.Steps--
			return s.pick(t, exiting)
		}
	}
	// environment events
	if !s.NoEnv && !s.Timed {
		for _, e := range s.envs {
			if e.fired < e.Budget && (e.Enabled == nil || e.Enabled()) {
				alts = append(alts, alt{e: e})
				costs = append(costs, 1)
			}
		}
	}
	if len(alts) == 0 {
		s.Out = Deadlock
		s.Class = s.BlockedClass()
		s.Detail = "no enabled thread: " + s.describeBlocked()
		s.abort()
		return nil, 0, nil
	}
	// if the only alternatives are env events, fire the first one for free (time passes when everybody waits)
	onlyEnv := alts[0].e != nil
	c := 0
	if len(alts) > 1 || onlyEnv {
		if onlyEnv {
			costs[0] = 0
		}
		if len(alts) > 1 {
			idx := len(s.Choices)
			if idx < len(s.Prefix) {
				c = s.Prefix[idx]
				if c >= len(alts) {
					s.Out = Diverged
					s.Detail = fmt.Sprintf("replay divergence at decision %d: choice %d of %d", idx, c, len(alts))
					s.abort()
					return nil, 0, nil
				}
			} else if s.cache != nil {
				// new decision point: consult the happens-before cache
				rem := 1 << 20
				if s.Bound >= 0 {
					rem = s.Bound - s.cost
				}
				key := [2]uint64{s.hash, mix(uint64(t.nameH), s.pendingSig(exiting))}
				if old, ok := s.cache.m[key]; ok && old >= rem {
					s.cache.Hits++
					s.Out = Cached
					s.abort()
					return nil, 0, nil
				}
				s.cache.m[key] = rem
			}
			pi := PointInfo{N: len(alts), Costs: costs, CumCost: s.cost}
			if s.cache != nil && idx >= len(s.Prefix) {
				pi.PostKeys = make([][2]uint64, len(alts))
				for k, a := range alts {
					if a.t != nil {
						pi.PostKeys[k] = s.predictPost(a.t, a.sub)
					}
				}
			}
			if s.TraceOn {
				for _, a := range alts {
					if a.e != nil {
						pi.Desc = append(pi.Desc, "env:"+a.e.Name)
					} else {
						pi.Desc = append(pi.Desc, fmt.Sprintf("%s:%s#%d", a.t.Name, kindName(a.t.pending.Kind), a.sub))
					}
				}
			}
			s.Points = append(s.Points, pi)
			s.Choices = append(s.Choices, c)
			s.cost += costs[c]
		}
	}
	a := alts[c]
	if a.e != nil {
		return nil, 0, a.e
	}
	if len(alts) > 1 {
		a.t.decided = true
	}
	return a.t, a.sub, nil
}

func (s *Sched) allClientsDone() bool {
	for _, th := range s.threads {
		if !th.Daemon && !th.done {
			return false
		}
	}
	return true
}

// pendingSig distinguishes states that have the same trace but differ in who yields.
func (s *Sched) pendingSig(exiting bool) uint64 {
	var h uint64
	for _, th := range s.threads {
		if th.yielded {
			h += mix(th.nameH, 7)
		}
	}
	for _, e := range s.envs {
		h += mix(e.nameH, uint64(e.fired)+11)
	}
	if exiting {
		h += 3
	}
	h += uint64(s.Now) * 31
	return h
}

func (s *Sched) describeBlocked() string {
	var parts []string
	for _, th := range s.threads {
		if th.done {
			continue
		}
		d := "running"
		if th.pending != nil {
			d = kindName(th.pending.Kind)
			if th.pending.Obj != nil {
				d += "(" + th.pending.Obj.desc + ")"
			}
			if th.pending.Site != "" {
				d += "@" + th.pending.Site
			}
		}
		dm := ""
		if th.Daemon {
			dm = "[daemon]"
		}
		parts = append(parts, fmt.Sprintf("%s%s:%s", th.Name, dm, d))
	}
	sort.Strings(parts)
	return strings.Join(parts, "; ")
}

// commit applies the happens-before bookkeeping of a granted operation.
func (s *Sched) commit(t *Thread, op *Op) {
	t.steps++
	if o := op.Obj; o != nil {
		// conflict statistic: last writer is another thread
		if len(o.w) > 0 {
			for k := range o.w {
				if k != t.nameH && o.w[k] > t.clock[k] {
					s.Conflicts++
					break
				}
			}
		}
		if op.Write {
			t.clock.join(o.w)
			t.clock.join(o.r)
			t.clock[t.nameH]++
			o.w = t.clock.clone()
		} else {
			t.clock.join(o.w)
			t.clock[t.nameH]++
			o.r.join(t.clock)
		}
		s.hash ^= eventHash(t.nameH, t.steps, op.Kind, o.name, t.clock.hash())
	} else {
		t.clock[t.nameH]++
		s.hash ^= eventHash(t.nameH, t.steps, op.Kind, 0, t.clock.hash())
	}
	if op.Kind != KSleep && op.Kind != KYield {
		s.yieldRun = 0
		for _, th := range s.threads {
			if th != t {
				th.yielded = false
			}
		}
	}
	if s.TraceOn {
		d := ""
		if op.Obj != nil {
			d = op.Obj.desc
		}
		s.Trace = append(s.Trace, fmt.Sprintf("%s %s %s %s", t.Name, kindName(op.Kind), d, op.Site))
	}
}

func eventHash(thread uint64, step int, kind Kind, obj uint64, clockHash uint64) uint64 {
	return mix(mix(thread, uint64(step)), mix(uint64(kind), mix(obj, clockHash)))
}

// predictPost computes the state key right after th performs its pending operation (without performing it).
func (s *Sched) predictPost(th *Thread, sub int) [2]uint64 {
	op := th.pending
	if op == nil || op.Kind == KGo || op.Kind == KSleep || op.Kind == KYield {
		return [2]uint64{}
	}
	for _, x := range s.threads {
		if x.yielded {
			return [2]uint64{}
		}
	}
	c := th.clock.clone()
	var objName uint64
	if o := op.Obj; o != nil {
		c.join(o.w)
		if op.Write {
			c.join(o.r)
		}
		objName = o.name
	}
	c[th.nameH]++
	h := s.hash ^ eventHash(th.nameH, th.steps+1, op.Kind, objName, c.hash())
	return [2]uint64{h, s.postSig(th, sub)}
}

func (s *Sched) postSig(th *Thread, sub int) uint64 {
	h := mix(th.nameH, uint64(sub)+1)
	for _, e := range s.envs {
		h += mix(e.nameH, uint64(e.fired)+11)
	}
	return h + uint64(s.Now)*31
}

func (s *Sched) commitEnv(e *Env) {
	if e.obj == nil {
		e.obj = &Obj{name: mix(e.nameH, 99), w: vc{}, r: vc{}, desc: "env:" + e.Name}
	}
	if e.clock == nil {
		e.clock = vc{}
	}
	e.clock.join(e.obj.w)
	e.clock.join(e.obj.r)
	e.clock[e.nameH]++
	e.obj.w = e.clock.clone()
	s.hash ^= mix(mix(e.nameH, uint64(e.fired)), mix(uint64(KEnv), e.clock.hash()))
	for _, th := range s.threads {
		th.yielded = false
	}
	s.yieldRun = 0
	if s.TraceOn {
		s.Trace = append(s.Trace, "ENV "+e.Name)
	}
}

// Release records a release-type operation (unlock etc.) that is not a scheduling point.
func Release(o *Obj, kind Kind) {
	s := cur
	if s == nil || s.poison {
		return
	}
	s.commit(s.running, &Op{Kind: kind, Obj: o, Write: true})
}

// Touch records a visible operation that needs no scheduling decision of its own
// (used for effects that directly follow a granted point).
func Touch(o *Obj, kind Kind, write bool) {
	s := cur
	if s == nil || s.poison {
		return
	}
	s.commit(s.running, &Op{Kind: kind, Obj: o, Write: write})
}

// AddEnv registers an environment event source for this execution.
func AddEnv(name string, budget int, enabled func() bool, fire func()) *Env {
	s := cur
	if s == nil {
		return nil
	}
	if budget < 0 {
		budget = s.EnvDefault
		for sub, b := range s.EnvBudgets {
			if strings.Contains(name, sub) {
				budget = b
			}
		}
	}
	// make the name unique and deterministic
	n := 0
	for _, e := range s.envs {
		if strings.HasPrefix(e.Name, name+"#") {
			n++
		}
	}
	e := &Env{Name: fmt.Sprintf("%s#%d", name, n), Budget: budget, Enabled: enabled, Fire: fire}
	e.nameH = hashStr(e.Name)
	s.envs = append(s.envs, e)
	return e
}

// AddTimedEnv registers a time-driven source (ticker, timer, deadline) for timed mode; in untimed mode it is a plain source.
func AddTimedEnv(name string, budget int, enabled func() bool, fire func(), due func() int64) *Env {
	e := AddEnv(name, budget, enabled, fire)
	if e != nil {
		e.Due = due
		if cur.Timed {
			e.Budget = 1 << 30
		}
	}
	return e
}

// TimedMode reports whether the running execution is in discrete-event mode.
func TimedMode() bool { return cur != nil && cur.Timed }

// RemoveEnv disables an environment source.
func RemoveEnv(e *Env) {
	if e != nil {
		e.Budget = 0
	}
}

// Yield is a scheduling point that marks the caller as yielding (fair scheduling).
func Yield(kind Kind) {
	s := cur
	if s == nil {
		runtime.Gosched()
		return
	}
	if s.poison {
		panic(poisonExit{})
	}
	t := s.running
	t.yielded = true
	Point(&Op{Kind: kind})
	t.yielded = false
}

// Running returns the running thread's name (diagnostics).
func Running() string {
	if cur == nil || cur.running == nil {
		return ""
	}
	return cur.running.Name
}

// RunningID returns the running thread's id (0 without scheduler).
func RunningID() int {
	if cur == nil || cur.running == nil {
		return 0
	}
	return cur.running.ID
}

// StepIndex returns the global step counter (used as logical timestamp by harnesses).
func StepIndex() int {
	if cur == nil {
		return 0
	}
	return cur.Steps
}

func kindName(k Kind) string {
	names := map[Kind]string{KLock: "lock", KRLock: "rlock", KAnnounce: "lock-announce", KUnlock: "unlock", KRUnlock: "runlock",
		KAtomicR: "aload", KAtomicW: "astore", KWgWait: "wg.wait", KWgAdd: "wg.add", KOnce: "once", KSend: "send", KRecv: "recv",
		KClose: "close", KSelect: "select", KSleep: "sleep", KGo: "go", KExit: "exit", KFSR: "fs.r", KFSW: "fs.w", KCall: "call",
		KRet: "ret", KEnv: "env", KYield: "yield", KJoin: "join"}
	return names[k]
}

// Site returns "file:line" of the first caller outside the shim packages.
func Site() string {
	for skip := 2; skip < 12; skip++ {
		pc, file, line, ok := runtime.Caller(skip)
		if !ok {
			return ""
		}
		if strings.Contains(file, "zzverif") {
			continue
		}
		if i := strings.LastIndex(file, "/pkg/"); i >= 0 {
			file = file[i+5:]
		}
		fn := ""
		if f := runtime.FuncForPC(pc); f != nil {
			fn = f.Name()
			if i := strings.LastIndex(fn, "/"); i >= 0 {
				fn = fn[i+1:]
			}
		}
		return fmt.Sprintf("%s:%d %s", file, line, fn)
	}
	return ""
}

// PoisonExit unwinds the calling managed goroutine (execution is over).
func PoisonExit() { panic(poisonExit{}) }

// history object: call markers read it, return markers write it, so that only
// return->call pairs are ordered (real-time order of a history).
func histObj(s *Sched) *Obj {
	if o, ok := s.Vals["hist"]; ok {
		return o.(*Obj)
	}
	o := &Obj{name: 0xC0FFEE, w: vc{}, r: vc{}, desc: "history"}
	s.Vals["hist"] = o
	return o
}

// MarkCall records the invocation of a client operation and returns its logical time.
func MarkCall() int {
	s := cur
	if s == nil {
		return 0
	}
	if s.poison {
		panic(poisonExit{})
	}
	Point(&Op{Kind: KCall, Obj: histObj(s), Write: false})
	s.Now++
	return s.Steps
}

// MarkRet records the return of a client operation and returns its logical time.
func MarkRet() int {
	s := cur
	if s == nil {
		return 0
	}
	if s.poison {
		panic(poisonExit{})
	}
	Touch(histObj(s), KRet, true)
	s.Steps++
	return s.Steps
}

// Quiesce blocks the caller until no other managed thread can run, i.e. all
// background work that was runnable has run to completion (deterministic
// sequential programs use it as their explicit "let the background run" step).
func Quiesce() {
	s := cur
	if s == nil {
		return
	}
	if s.poison {
		panic(poisonExit{})
	}
	t := s.running
	Point(&Op{Kind: KYield, Enabled: func() bool {
		for _, th := range s.threads {
			if th != t && !th.done && s.enabled(th) {
				return false
			}
		}
		return true
	}})
}

// SleepUntil blocks the caller until the virtual clock reaches wake (timed mode).
func SleepUntil(wake int64) {
	s := cur
	if s == nil {
		return
	}
	if s.poison {
		panic(poisonExit{})
	}
	t := s.running
	t.WakeAt = wake
	Point(&Op{Kind: KSleep, Enabled: func() bool { return s.Now >= wake }})
	t.WakeAt = 0
}
