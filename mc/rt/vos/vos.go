// Package vos replaces "os" in instrumented kevo files: a pass-through to the
// real file system that records every mutating call under a chosen root (for
// crash-state enumeration) and makes file-system calls scheduling points.
package vos

import (
	"io"
	"io/fs"
	"os"
	"path/filepath"
	"sort"
	"strings"
	"syscall"
	"time"

	"github.com/KevoDB/kevo/pkg/zzverif/vsched"
)

type (
	FileInfo  = os.FileInfo
	FileMode  = os.FileMode
	DirEntry  = os.DirEntry
	PathError = os.PathError
	LinkError = os.LinkError
	Signal    = os.Signal
	Process   = os.Process
)

const (
	O_RDONLY = os.O_RDONLY
	O_WRONLY = os.O_WRONLY
	O_RDWR   = os.O_RDWR
	O_APPEND = os.O_APPEND
	O_CREATE = os.O_CREATE
	O_EXCL   = os.O_EXCL
	O_SYNC   = os.O_SYNC
	O_TRUNC  = os.O_TRUNC

	SEEK_SET = os.SEEK_SET
	SEEK_CUR = os.SEEK_CUR
	SEEK_END = os.SEEK_END

	ModePerm      = os.ModePerm
	ModeDir       = os.ModeDir
	PathSeparator = os.PathSeparator
)

var (
	ErrNotExist   = os.ErrNotExist
	ErrExist      = os.ErrExist
	ErrPermission = os.ErrPermission
	ErrClosed     = os.ErrClosed
	ErrInvalid    = os.ErrInvalid
	Stdout        = os.Stdout
	Stderr        = os.Stderr
	Stdin         = os.Stdin
	Args          = os.Args
	Interrupt     = os.Interrupt
	Kill          = os.Kill
)

func IsNotExist(err error) bool   { return os.IsNotExist(err) }
func IsExist(err error) bool      { return os.IsExist(err) }
func IsPermission(err error) bool { return os.IsPermission(err) }
func IsTimeout(err error) bool    { return os.IsTimeout(err) }
func Exit(code int)               { os.Exit(code) }
func Getenv(k string) string      { return os.Getenv(k) }
func Setenv(k, v string) error    { return os.Setenv(k, v) }
func LookupEnv(k string) (string, bool) { return os.LookupEnv(k) }
func Getpid() int                 { return os.Getpid() }
func Hostname() (string, error)   { return os.Hostname() }
func Getwd() (string, error)      { return os.Getwd() }
func TempDir() string             { return os.TempDir() }
func UserHomeDir() (string, error) { return os.UserHomeDir() }
func Executable() (string, error) { return os.Executable() }
func DirFS(d string) fs.FS        { return os.DirFS(d) }
func SameFile(a, b FileInfo) bool { return os.SameFile(a, b) }
func FindProcess(pid int) (*Process, error) { return os.FindProcess(pid) }

// ---- recording ----

// OpKind of a recorded mutating call.
type OpKind uint8

const (
	OpMkdir OpKind = iota + 1
	OpCreate        // create/truncate file (open with O_CREATE and/or O_TRUNC); Data=nil
	OpWrite         // write Data at Off
	OpRename
	OpRemove
	OpTruncate
	OpSync
	OpMark // harness marker (Path = label)
	OpRemoveAll
)

// Op is one recorded call, path relative to the recording root.
type Op struct {
	Kind  OpKind
	Path  string
	Path2 string
	Off   int64
	Data  []byte
	Trunc bool
	Excl  bool
}

var (
	recRoot string
	recLog  []Op
	recOn   bool
	// Points makes namespace calls (create, open, rename, remove, readdir, stat, glob) scheduling points in controlled mode.
	Points = true
	// DataPoints also makes data calls on open files (read, write, sync, close) scheduling points. Off by default:
	// kevo only writes files that are private to one thread (SSTable temp file) or guarded by a mutex (log file),
	// and reads immutable files, so the order of data calls is fixed by the namespace calls and locks around them.
	DataPoints = false
)

// StartRecording begins recording mutating calls under root.
func StartRecording(root string) {
	recRoot = filepath.Clean(root)
	recLog = nil
	recOn = true
}

// StopRecording ends recording and returns the log.
func StopRecording() []Op {
	recOn = false
	l := recLog
	recLog = nil
	return l
}

// Mark appends a harness marker to the log.
func Mark(label string) {
	if recOn {
		recLog = append(recLog, Op{Kind: OpMark, Path: label})
	}
}

// LogLen returns the current length of the log.
func LogLen() int { return len(recLog) }

func rel(p string) (string, bool) {
	if !recOn {
		return "", false
	}
	c := filepath.Clean(p)
	if !filepath.IsAbs(c) {
		if a, err := filepath.Abs(c); err == nil {
			c = a
		}
	}
	if c == recRoot {
		return ".", true
	}
	if strings.HasPrefix(c, recRoot+"/") {
		return c[len(recRoot)+1:], true
	}
	return "", false
}

func point(path string, write bool) {
	if !Points || !vsched.Active() {
		return
	}
	s := vsched.Cur()
	k := vsched.KFSR
	if write {
		k = vsched.KFSW
	}
	vsched.Point(&vsched.Op{Kind: k, Obj: s.ObjFor("fs:"+filepath.Clean(path), "fs:"+normName(filepath.Base(path))), Write: write})
}

// dirPoint: operations that change or read the set of names in a directory.
func dataPoint(path string, write bool) {
	if DataPoints {
		point(path, write)
	}
}

func dirPoint(path string, write bool) {
	point(filepath.Dir(filepath.Clean(path))+"/", write)
}

// ---- File ----

type File struct {
	*os.File
	path   string
	append bool
}

func wrap(f *os.File, path string, app bool) *File {
	if f == nil {
		return nil
	}
	return &File{File: f, path: path, append: app}
}

func (f *File) Write(b []byte) (int, error) {
	dataPoint(f.path, true)
	var off int64
	r, rec := rel(f.path)
	if rec {
		if f.append {
			if st, err := f.File.Stat(); err == nil {
				off = st.Size()
			}
		} else {
			off, _ = f.File.Seek(0, io.SeekCurrent)
		}
	}
	n, err := f.File.Write(b)
	if rec && n > 0 {
		recLog = append(recLog, Op{Kind: OpWrite, Path: r, Off: off, Data: append([]byte(nil), b[:n]...)})
	}
	return n, err
}

func (f *File) WriteString(s string) (int, error) { return f.Write([]byte(s)) }

func (f *File) WriteAt(b []byte, off int64) (int, error) {
	dataPoint(f.path, true)
	n, err := f.File.WriteAt(b, off)
	if r, rec := rel(f.path); rec && n > 0 {
		recLog = append(recLog, Op{Kind: OpWrite, Path: r, Off: off, Data: append([]byte(nil), b[:n]...)})
	}
	return n, err
}

func (f *File) ReadFrom(r io.Reader) (int64, error) {
	// force the generic path so that writes are recorded
	return io.Copy(struct{ io.Writer }{f}, r)
}

func (f *File) Read(b []byte) (int, error) {
	dataPoint(f.path, false)
	return f.File.Read(b)
}

func (f *File) ReadAt(b []byte, off int64) (int, error) {
	dataPoint(f.path, false)
	return f.File.ReadAt(b, off)
}

func (f *File) Sync() error {
	dataPoint(f.path, true)
	if r, rec := rel(f.path); rec {
		recLog = append(recLog, Op{Kind: OpSync, Path: r})
	}
	return f.File.Sync()
}

func (f *File) Truncate(size int64) error {
	dataPoint(f.path, true)
	if r, rec := rel(f.path); rec {
		recLog = append(recLog, Op{Kind: OpTruncate, Path: r, Off: size})
	}
	return f.File.Truncate(size)
}

func (f *File) Close() error {
	dataPoint(f.path, true)
	return f.File.Close()
}

// ---- functions ----

func Open(name string) (*File, error) {
	point(name, false)
	f, err := os.Open(name)
	if err != nil {
		return nil, err
	}
	return wrap(f, name, false), nil
}

// Jail: while set, every call that would create, change or remove something outside the jail fails with a
// permission error, the way it would on a machine where only the database directory is writable. (Checks that
// damage stored absolute paths use it: a database opened with a path damaged into "/dew/shm/..." must not litter
// the file system of the machine the check runs on.) The bloom filter's temporary files under TempDir stay allowed.
var jail string

func SetJail(root string) { jail = root }

func jailed(op, name string) error {
	if jail == "" {
		return nil
	}
	abs, err := filepath.Abs(name)
	if err != nil {
		return nil
	}
	if abs == jail || strings.HasPrefix(abs, jail+string(filepath.Separator)) || strings.HasPrefix(abs, os.TempDir()+string(filepath.Separator)) {
		return nil
	}
	return &os.PathError{Op: op, Path: name, Err: syscall.EACCES}
}

func OpenFile(name string, flag int, perm FileMode) (*File, error) {
	mut := flag&(O_CREATE|O_TRUNC) != 0
	if mut || flag&(O_WRONLY|O_RDWR|O_APPEND) != 0 {
		if err := jailed("open", name); err != nil {
			return nil, err
		}
	}
	if mut {
		dirPoint(name, true)
	} else {
		point(name, false)
	}
	existed := false
	if mut {
		if _, err := os.Lstat(name); err == nil {
			existed = true
		}
	}
	f, err := os.OpenFile(name, flag, perm)
	if err != nil {
		return nil, err
	}
	if r, rec := rel(name); rec && mut && (!existed || flag&O_TRUNC != 0) {
		recLog = append(recLog, Op{Kind: OpCreate, Path: r, Trunc: flag&O_TRUNC != 0, Excl: flag&O_EXCL != 0})
	}
	return wrap(f, name, flag&O_APPEND != 0), nil
}

func Create(name string) (*File, error) {
	return OpenFile(name, O_RDWR|O_CREATE|O_TRUNC, 0666)
}

func CreateTemp(dir, pattern string) (*File, error) {
	f, err := os.CreateTemp(dir, pattern)
	if err != nil {
		return nil, err
	}
	if r, rec := rel(f.Name()); rec {
		recLog = append(recLog, Op{Kind: OpCreate, Path: r})
	}
	return wrap(f, f.Name(), false), nil
}

func MkdirTemp(dir, pattern string) (string, error) { return os.MkdirTemp(dir, pattern) }

func Mkdir(name string, perm FileMode) error {
	if err := jailed("mkdir", name); err != nil {
		return err
	}
	dirPoint(name, true)
	err := os.Mkdir(name, perm)
	if r, rec := rel(name); rec && err == nil {
		recLog = append(recLog, Op{Kind: OpMkdir, Path: r})
	}
	return err
}

func MkdirAll(name string, perm FileMode) error {
	if st, err := os.Stat(name); err == nil && st.IsDir() {
		point(name+"/", false)
		return nil
	}
	if err := jailed("mkdir", name); err != nil {
		return err
	}
	dirPoint(name, true)
	err := os.MkdirAll(name, perm)
	if r, rec := rel(name); rec && err == nil {
		recLog = append(recLog, Op{Kind: OpMkdir, Path: r})
	}
	return err
}

func Remove(name string) error {
	if err := jailed("remove", name); err != nil {
		return err
	}
	dirPoint(name, true)
	err := os.Remove(name)
	if r, rec := rel(name); rec && err == nil {
		recLog = append(recLog, Op{Kind: OpRemove, Path: r})
	}
	return err
}

func RemoveAll(name string) error {
	if err := jailed("removeall", name); err != nil {
		return err
	}
	dirPoint(name, true)
	err := os.RemoveAll(name)
	if r, rec := rel(name); rec && err == nil {
		recLog = append(recLog, Op{Kind: OpRemoveAll, Path: r})
	}
	return err
}

func Rename(o, n string) error {
	if err := jailed("rename", o); err != nil {
		return err
	}
	if err := jailed("rename", n); err != nil {
		return err
	}
	dirPoint(o, true)
	if filepath.Dir(filepath.Clean(o)) != filepath.Dir(filepath.Clean(n)) {
		dirPoint(n, true)
	}
	err := os.Rename(o, n)
	ro, rec1 := rel(o)
	rn, rec2 := rel(n)
	if err == nil && rec1 && rec2 {
		recLog = append(recLog, Op{Kind: OpRename, Path: ro, Path2: rn})
	}
	return err
}

func Stat(name string) (FileInfo, error)  { point(name, false); return os.Stat(name) }
func Lstat(name string) (FileInfo, error) { point(name, false); return os.Lstat(name) }

func ReadDir(name string) ([]DirEntry, error) {
	point(filepath.Clean(name)+"/", false)
	return os.ReadDir(name) // sorted by filename
}

func ReadFile(name string) ([]byte, error) { point(name, false); return os.ReadFile(name) }

func WriteFile(name string, data []byte, perm FileMode) error {
	if err := jailed("open", name); err != nil {
		return err
	}
	f, err := OpenFile(name, O_WRONLY|O_CREATE|O_TRUNC, perm)
	if err != nil {
		return err
	}
	_, err = f.Write(data)
	if e := f.Close(); e != nil && err == nil {
		err = e
	}
	return err
}

func Truncate(name string, size int64) error {
	point(name, true)
	err := os.Truncate(name, size)
	if r, rec := rel(name); rec && err == nil {
		recLog = append(recLog, Op{Kind: OpTruncate, Path: r, Off: size})
	}
	return err
}

func Chtimes(name string, a, m time.Time) error { return os.Chtimes(name, a, m) }
func Chmod(name string, m FileMode) error       { return os.Chmod(name, m) }

// Glob is filepath.Glob as a scheduling point (result sorted).
func Glob(pattern string) ([]string, error) {
	point(filepath.Dir(pattern)+"/", false)
	m, err := filepath.Glob(pattern)
	sort.Strings(m)
	return m, err
}

// normName replaces long digit runs (timestamps, random temp-file suffixes) in a file name used for diagnostics.
func normName(n string) string {
	if strings.HasPrefix(n, "bloom-filter-") {
		return "bloom-filter-N.tmp" // random temp-file suffix of any length
	}
	b := []byte(n)
	out := make([]byte, 0, len(b))
	run := 0
	for i := 0; i <= len(b); i++ {
		if i < len(b) && b[i] >= '0' && b[i] <= '9' {
			run++
			continue
		}
		if run >= 7 {
			out = append(out, 'N')
		} else {
			out = append(out, b[i-run:i]...)
		}
		run = 0
		if i < len(b) {
			out = append(out, b[i])
		}
	}
	return string(out)
}
