// Package vrand replaces "math/rand" in instrumented kevo files: global functions
// draw from a source that is re-seeded identically for every controlled execution.
package vrand

import (
	"math/rand"

	"github.com/KevoDB/kevo/pkg/zzverif/vsched"
)

type (
	Rand   = rand.Rand
	Source = rand.Source
)

func New(s Source) *Rand          { return rand.New(s) }
func NewSource(seed int64) Source { return rand.NewSource(seed) }

var free = rand.New(rand.NewSource(1))

func g() *Rand {
	s := vsched.Cur()
	if s == nil {
		return free
	}
	if r, ok := s.Vals["rand"]; ok {
		return r.(*Rand)
	}
	r := rand.New(rand.NewSource(42))
	s.Vals["rand"] = r
	return r
}

func Seed(int64)              {}
func Int() int                { return g().Int() }
func Intn(n int) int          { return g().Intn(n) }
func Int31() int32            { return g().Int31() }
func Int31n(n int32) int32    { return g().Int31n(n) }
func Int63() int64            { return g().Int63() }
func Int63n(n int64) int64    { return g().Int63n(n) }
func Uint32() uint32          { return g().Uint32() }
func Uint64() uint64          { return g().Uint64() }
func Float64() float64        { return g().Float64() }
func Float32() float32        { return g().Float32() }
func Perm(n int) []int        { return g().Perm(n) }
func Shuffle(n int, f func(i, j int)) { g().Shuffle(n, f) }
func Read(p []byte) (int, error)      { return g().Read(p) }
