// Package vcontext replaces "context" in instrumented kevo files: everything is
// the real package except deadlines, whose expiry is a virtual environment event.
package vcontext

import (
	"context"
	"time"

	"github.com/KevoDB/kevo/pkg/zzverif/vsched"
)

type (
	Context         = context.Context
	CancelFunc      = context.CancelFunc
	CancelCauseFunc = context.CancelCauseFunc
)

var (
	Canceled         = context.Canceled
	DeadlineExceeded = context.DeadlineExceeded
)

func Background() Context                               { return context.Background() }
func TODO() Context                                     { return context.TODO() }
func WithCancel(p Context) (Context, CancelFunc)        { return context.WithCancel(p) }
func WithValue(p Context, k, v any) Context             { return context.WithValue(p, k, v) }
func Cause(c Context) error                             { return context.Cause(c) }
func WithoutCancel(p Context) Context                   { return context.WithoutCancel(p) }
func WithCancelCause(p Context) (Context, CancelCauseFunc) { return context.WithCancelCause(p) }
func AfterFunc(c Context, f func()) (stop func() bool)  { return context.AfterFunc(c, f) }

type dctx struct {
	context.Context
	fired    *bool
	deadline time.Time
}

func (d *dctx) Err() error {
	e := d.Context.Err()
	if e != nil && *d.fired {
		return context.DeadlineExceeded
	}
	return e
}
func (d *dctx) Deadline() (time.Time, bool) { return d.deadline, true }

func WithTimeout(p Context, d time.Duration) (Context, CancelFunc) {
	s := vsched.Cur()
	if s == nil {
		return context.WithTimeout(p, d)
	}
	inner, cancel := context.WithCancel(p)
	fired := false
	done := false
	c := &dctx{Context: inner, fired: &fired, deadline: time.Unix(0, s.Now+int64(d))}
	created := s.Now
	env := vsched.AddTimedEnv("deadline:"+vsched.Site(), -1, func() bool { return !done && inner.Err() == nil }, func() {
		fired = true
		if !s.Timed {
			s.Now += int64(d)
		}
		cancel()
	}, func() int64 { return created + int64(d) })
	return c, func() {
		done = true
		vsched.RemoveEnv(env)
		cancel()
	}
}

func WithDeadline(p Context, t time.Time) (Context, CancelFunc) {
	s := vsched.Cur()
	if s == nil {
		return context.WithDeadline(p, t)
	}
	return WithTimeout(p, t.Sub(time.Unix(0, s.Now)))
}
