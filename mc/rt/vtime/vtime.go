// Package vtime replaces "time" in instrumented kevo files.
package vtime

import (
	"time"

	"github.com/KevoDB/kevo/pkg/zzverif/vsched"
)

type (
	Time     = time.Time
	Duration = time.Duration
	Month    = time.Month
	Weekday  = time.Weekday
	Location = time.Location
)

const (
	Nanosecond  = time.Nanosecond
	Microsecond = time.Microsecond
	Millisecond = time.Millisecond
	Second      = time.Second
	Minute      = time.Minute
	Hour        = time.Hour

	RFC3339     = time.RFC3339
	RFC3339Nano = time.RFC3339Nano
	RFC1123     = time.RFC1123
	RFC822      = time.RFC822
	Kitchen     = time.Kitchen
	DateTime    = time.DateTime
	DateOnly    = time.DateOnly
	TimeOnly    = time.TimeOnly
	StampMilli  = time.StampMilli
	UnixDate    = time.UnixDate
	ANSIC       = time.ANSIC
)

var (
	UTC   = time.UTC
	Local = time.Local
)

func Unix(s, ns int64) Time                 { return time.Unix(s, ns) }
func UnixMilli(ms int64) Time               { return time.UnixMilli(ms) }
func UnixMicro(us int64) Time               { return time.UnixMicro(us) }
func Parse(l, v string) (Time, error)       { return time.Parse(l, v) }
func ParseDuration(s string) (Duration, error) { return time.ParseDuration(s) }
func Date(y int, m Month, d, h, mi, s, ns int, loc *Location) Time {
	return time.Date(y, m, d, h, mi, s, ns, loc)
}

// Now: deterministic strictly increasing virtual clock in controlled mode.
func Now() Time {
	s := vsched.Cur()
	if s == nil {
		return time.Now()
	}
	s.Now += 1000
	return time.Unix(0, s.Now)
}

// Advance moves the virtual clock (harness use).
func Advance(d Duration) {
	if s := vsched.Cur(); s != nil {
		s.Now += int64(d)
	}
}

func Since(t Time) Duration { return Now().Sub(t) }
func Until(t Time) Duration { return t.Sub(Now()) }

// Sleep is a yield in controlled mode; the virtual clock advances by d.
func Sleep(d Duration) {
	s := vsched.Cur()
	if s == nil {
		time.Sleep(d)
		return
	}
	if vsched.Poisoned() {
		vsched.PoisonExit()
	}
	if s.Timed {
		// discrete-event mode: block until the virtual clock reaches the wake-up time
		wake := s.Now + int64(d)
		vsched.SleepUntil(wake)
		return
	}
	vsched.Yield(vsched.KSleep)
	s.Now += int64(d)
}

// Ticker fires only as an explorer-chosen environment event in controlled mode.
type Ticker struct {
	C       <-chan Time
	c       chan Time
	real    *time.Ticker
	env     *vsched.Env
	stopped bool
	d       Duration
}

func NewTicker(d Duration) *Ticker {
	if d <= 0 {
		panic("non-positive interval for NewTicker")
	}
	s := vsched.Cur()
	if s == nil {
		r := time.NewTicker(d)
		return &Ticker{C: r.C, real: r, d: d}
	}
	t := &Ticker{c: make(chan Time, 1), d: d}
	t.C = t.c
	last := s.Now
	t.env = vsched.AddTimedEnv("ticker:"+vsched.Site(), -1, func() bool { return !t.stopped && (s.Timed || len(t.c) == 0) }, func() {
		if !s.Timed {
			s.Now += int64(t.d)
		}
		last = s.Now
		select {
		case t.c <- time.Unix(0, s.Now):
		default: // a slow receiver misses ticks, as with the real ticker
		}
	}, func() int64 { return last + int64(t.d) })
	return t
}

func (t *Ticker) Stop() {
	if t.real != nil {
		t.real.Stop()
		return
	}
	t.stopped = true
}

func (t *Ticker) Reset(d Duration) {
	if t.real != nil {
		t.real.Reset(d)
		return
	}
	t.d = d
	t.stopped = false
}

// Timer fires at most once per arming, as an environment event.
type Timer struct {
	C     <-chan Time
	c     chan Time
	real  *time.Timer
	armed   bool
	armedAt int64
	d       Duration
	f       func()
}

func newTimer(d Duration, f func(), site string) *Timer {
	s := vsched.Cur()
	t := &Timer{c: make(chan Time, 1), d: d, armed: true, f: f}
	t.C = t.c
	t.armedAt = s.Now
	vsched.AddTimedEnv("timer:"+site, -1, func() bool { return t.armed }, func() {
		t.armed = false
		if !s.Timed {
			s.Now += int64(t.d)
		}
		if t.f != nil {
			ff := t.f
			vsched.Go(ff)
			return
		}
		select {
		case t.c <- time.Unix(0, s.Now):
		default:
		}
	}, func() int64 { return t.armedAt + int64(t.d) })
	return t
}

func NewTimer(d Duration) *Timer {
	if vsched.Cur() == nil {
		r := time.NewTimer(d)
		return &Timer{C: r.C, real: r}
	}
	return newTimer(d, nil, vsched.Site())
}

func AfterFunc(d Duration, f func()) *Timer {
	if vsched.Cur() == nil {
		return &Timer{real: time.AfterFunc(d, f)}
	}
	return newTimer(d, f, vsched.Site())
}

func After(d Duration) <-chan Time {
	if vsched.Cur() == nil {
		return time.After(d)
	}
	return newTimer(d, nil, vsched.Site()).C
}

func Tick(d Duration) <-chan Time { return NewTicker(d).C }

func (t *Timer) Stop() bool {
	if t.real != nil {
		return t.real.Stop()
	}
	was := t.armed
	t.armed = false
	return was
}

func (t *Timer) Reset(d Duration) bool {
	if t.real != nil {
		return t.real.Reset(d)
	}
	was := t.armed
	t.d = d
	t.armed = true
	if s := vsched.Cur(); s != nil {
		t.armedAt = s.Now
	}
	return was
}
