// Package vsync replaces "sync" in instrumented kevo files.
package vsync

import (
	"sync"

	"github.com/KevoDB/kevo/pkg/zzverif/vsched"
)

type (
	Map    = sync.Map
	Pool   = sync.Pool
	Locker = sync.Locker
	Cond   = sync.Cond
)

func NewCond(l Locker) *Cond { return sync.NewCond(l) }

// Mutex: in controlled mode the model (owner) is the lock; the real mutex is used in pass-through mode.
type Mutex struct {
	real  sync.Mutex
	owner int // thread id + 1
	obj   *vsched.Obj
	gen   *vsched.Sched
}

func (m *Mutex) reset() {
	// objects surviving from an earlier execution (package-level variables) start fresh
	if s := vsched.Cur(); m.gen != s {
		m.gen = s
		m.owner = 0
		m.obj = vsched.NewObj("mutex")
	}
}

func (m *Mutex) Lock() {
	if !vsched.Installed() {
		m.real.Lock()
		return
	}
	if vsched.Poisoned() {
		vsched.PoisonExit()
	}
	m.reset()
	vsched.Point(&vsched.Op{Kind: vsched.KLock, Obj: m.obj, Write: true, Enabled: func() bool { return m.owner == 0 }, Site: vsched.Site()})
	m.owner = vsched.RunningID() + 1
}

func (m *Mutex) TryLock() bool {
	if !vsched.Installed() {
		return m.real.TryLock()
	}
	if vsched.Poisoned() {
		vsched.PoisonExit()
	}
	m.reset()
	vsched.Point(&vsched.Op{Kind: vsched.KLock, Obj: m.obj, Write: true, Site: vsched.Site()})
	if m.owner != 0 {
		return false
	}
	m.owner = vsched.RunningID() + 1
	return true
}

func (m *Mutex) Unlock() {
	if !vsched.Installed() {
		m.real.Unlock()
		return
	}
	if vsched.Poisoned() {
		return
	}
	m.reset()
	if m.owner == 0 {
		panic("sync: unlock of unlocked mutex")
	}
	m.owner = 0
	vsched.Release(m.obj, vsched.KUnlock)
}

// RWMutex with Go's writer preference: a pending Lock blocks new RLocks.
type RWMutex struct {
	real    sync.RWMutex
	owner   int
	readers int
	waiting int
	obj     *vsched.Obj
	gen     *vsched.Sched
}

func (m *RWMutex) reset() {
	if s := vsched.Cur(); m.gen != s {
		m.gen = s
		m.owner, m.readers, m.waiting = 0, 0, 0
		m.obj = vsched.NewObj("rwmutex")
	}
}

func (m *RWMutex) Lock() {
	if !vsched.Installed() {
		m.real.Lock()
		return
	}
	if vsched.Poisoned() {
		vsched.PoisonExit()
	}
	m.reset()
	site := vsched.Site()
	// first step: try to take the lock; if it is held, this is the announcement that holds back new readers
	vsched.Point(&vsched.Op{Kind: vsched.KAnnounce, Obj: m.obj, Write: true, Site: site})
	if m.owner != 0 || m.readers != 0 {
		m.waiting++
		vsched.Point(&vsched.Op{Kind: vsched.KLock, Obj: m.obj, Write: true, Enabled: func() bool { return m.owner == 0 && m.readers == 0 }, Site: site})
		m.waiting--
	}
	m.owner = vsched.RunningID() + 1
}

func (m *RWMutex) Unlock() {
	if !vsched.Installed() {
		m.real.Unlock()
		return
	}
	if vsched.Poisoned() {
		return
	}
	m.reset()
	if m.owner == 0 {
		panic("sync: Unlock of unlocked RWMutex")
	}
	m.owner = 0
	vsched.Release(m.obj, vsched.KUnlock)
}

func (m *RWMutex) RLock() {
	if !vsched.Installed() {
		m.real.RLock()
		return
	}
	if vsched.Poisoned() {
		vsched.PoisonExit()
	}
	m.reset()
	vsched.Point(&vsched.Op{Kind: vsched.KRLock, Obj: m.obj, Write: false, Enabled: func() bool { return m.owner == 0 && m.waiting == 0 }, Site: vsched.Site()})
	m.readers++
}

func (m *RWMutex) RUnlock() {
	if !vsched.Installed() {
		m.real.RUnlock()
		return
	}
	if vsched.Poisoned() {
		return
	}
	m.reset()
	if m.readers == 0 {
		panic("sync: RUnlock of unlocked RWMutex")
	}
	m.readers--
	// a reader release is ordered before a later writer: record as write on the object
	vsched.Release(m.obj, vsched.KRUnlock)
}

func (m *RWMutex) TryLock() bool {
	if !vsched.Installed() {
		return m.real.TryLock()
	}
	m.reset()
	vsched.Point(&vsched.Op{Kind: vsched.KLock, Obj: m.obj, Write: true, Site: vsched.Site()})
	if m.owner != 0 || m.readers != 0 {
		return false
	}
	m.owner = vsched.RunningID() + 1
	return true
}

func (m *RWMutex) TryRLock() bool {
	if !vsched.Installed() {
		return m.real.TryRLock()
	}
	m.reset()
	vsched.Point(&vsched.Op{Kind: vsched.KRLock, Obj: m.obj, Site: vsched.Site()})
	if m.owner != 0 || m.waiting != 0 {
		return false
	}
	m.readers++
	return true
}

func (m *RWMutex) RLocker() Locker { return (*rlocker)(m) }

type rlocker RWMutex

func (r *rlocker) Lock()   { (*RWMutex)(r).RLock() }
func (r *rlocker) Unlock() { (*RWMutex)(r).RUnlock() }

// WaitGroup
type WaitGroup struct {
	real sync.WaitGroup
	n    int
	obj  *vsched.Obj
	gen  *vsched.Sched
}

func (w *WaitGroup) reset() {
	if s := vsched.Cur(); w.gen != s {
		w.gen = s
		w.n = 0
		w.obj = vsched.NewObj("waitgroup")
	}
}

func (w *WaitGroup) Add(d int) {
	if !vsched.Installed() {
		w.real.Add(d)
		return
	}
	if vsched.Poisoned() {
		return
	}
	w.reset()
	w.n += d
	if w.n < 0 {
		panic("sync: negative WaitGroup counter")
	}
	vsched.Release(w.obj, vsched.KWgAdd)
}

func (w *WaitGroup) Done() { w.Add(-1) }

func (w *WaitGroup) Wait() {
	if !vsched.Installed() {
		w.real.Wait()
		return
	}
	if vsched.Poisoned() {
		vsched.PoisonExit()
	}
	w.reset()
	vsched.Point(&vsched.Op{Kind: vsched.KWgWait, Obj: w.obj, Write: false, Enabled: func() bool { return w.n == 0 }, Site: vsched.Site()})
}

// Go mirrors sync.WaitGroup.Go (go1.25) for forward compatibility.
func (w *WaitGroup) Go(f func()) {
	w.Add(1)
	vsched.Go(func() {
		defer w.Done()
		f()
	})
}

// Once
type Once struct {
	m    Mutex
	done bool
	real sync.Once
}

func (o *Once) Do(f func()) {
	if !vsched.Installed() {
		o.real.Do(f)
		return
	}
	o.m.Lock()
	defer o.m.Unlock()
	if !o.done {
		defer func() { o.done = true }()
		f()
	}
}

func OnceFunc(f func()) func() {
	var o Once
	return func() { o.Do(f) }
}
