module verif/mc

go 1.24.2

require (
	github.com/KevoDB/kevo v0.0.0
	github.com/anishathalye/porcupine v1.3.0
)

require github.com/cespare/xxhash/v2 v2.3.0 // indirect

replace github.com/KevoDB/kevo => /repo
