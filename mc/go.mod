module verif/mc

go 1.24.2

require (
	github.com/KevoDB/kevo v0.0.0
	github.com/anishathalye/porcupine v1.3.0
)

replace github.com/KevoDB/kevo => /repo
