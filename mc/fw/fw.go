// Package fw is the check framework: work units run in worker subprocesses, the
// parent merges their results, classifies violations against known_findings.jsonl,
// writes the evidence file and prints VIOLATION / KNOWN-FINDING lines.
package fw

import (
	"bufio"
	"crypto/sha256"
	"encoding/hex"
	"encoding/json"
	"fmt"
	"os"
	"os/exec"
	"path/filepath"
	"runtime"
	"sort"
	"strconv"
	"strings"
	"sync"
	"syscall"
	"time"
)

// Violation reported by a unit.
type Violation struct {
	Fingerprint string `json:"fingerprint"` // stable identity of the (shrunk) witness + failed clause
	What        string `json:"what"`        // one line
	Unit        string `json:"unit"`
	Witness     any    `json:"witness"` // replayable description
}

// Result of one work unit (and, merged, of a whole check).
type Result struct {
	Evaluations int            `json:"evaluations"`
	Nontrivial  int            `json:"distinct_nontrivial"`
	States      int            `json:"states"`
	Transitions int            `json:"transitions"`
	Traces      int            `json:"traces_validated_against_impl"`
	Samples     []any          `json:"samples"`
	Exhaustive  bool           `json:"exhaustive"`
	Caps        []string       `json:"caps,omitempty"`
	Violations  []Violation    `json:"violations,omitempty"`
	Counters    map[string]int `json:"counters,omitempty"`
	Notes       []string       `json:"notes,omitempty"`
	HarnessErr  string         `json:"harness_error,omitempty"`
	Unstable    int            `json:"unstable,omitempty"`
	MaxCaseMs   int            `json:"max_case_ms,omitempty"` // longest single evaluation (between two Progress calls)
}

func NewResult() *Result { return &Result{Exhaustive: true, Counters: map[string]int{}} }

func (r *Result) Count(k string, n int) { r.Counters[k] += n }
func (r *Result) Sample(s any) {
	if len(r.Samples) < 6 {
		r.Samples = append(r.Samples, s)
	}
}
func (r *Result) Violate(fp, what, unit string, witness any) {
	for _, v := range r.Violations {
		if v.Fingerprint == fp {
			return
		}
	}
	if len(r.Violations) < 400 {
		r.Violations = append(r.Violations, Violation{Fingerprint: fp, What: what, Unit: unit, Witness: witness})
	} else {
		r.Count("violations_dropped_over_cap", 1)
	}
}

func (r *Result) Merge(b *Result) {
	r.Evaluations += b.Evaluations
	r.Nontrivial += b.Nontrivial
	r.States += b.States
	r.Transitions += b.Transitions
	r.Traces += b.Traces
	r.Unstable += b.Unstable
	if b.MaxCaseMs > r.MaxCaseMs {
		r.MaxCaseMs = b.MaxCaseMs
	}
	for _, s := range b.Samples {
		r.Sample(s)
	}
	r.Exhaustive = r.Exhaustive && b.Exhaustive
	r.Caps = append(r.Caps, b.Caps...)
	for _, v := range b.Violations {
		r.Violate(v.Fingerprint, v.What, v.Unit, v.Witness)
	}
	for k, v := range b.Counters {
		r.Counters[k] += v
	}
	for _, n := range b.Notes {
		dup := false
		for _, m := range r.Notes {
			if m == n {
				dup = true
			}
		}
		if !dup && len(r.Notes) < 40 {
			r.Notes = append(r.Notes, n)
		}
	}
	if b.HarnessErr != "" && r.HarnessErr == "" {
		r.HarnessErr = b.HarnessErr
	}
}

// Env of a unit run.
type Env struct {
	Tier     string
	Seed     int
	Deadline time.Time
	Thorough bool
}

func (e *Env) Expired() bool { return !e.Deadline.IsZero() && time.Now().After(e.Deadline) }

// Check is one property's machinery.
type Check struct {
	ID          string
	Level       string // model_checking | fault_enumeration | exploration
	Rule        string
	Assumptions []string
	// Units lists the work units of a tier (each runs in its own worker process).
	Units func(tier string) []string
	// Run executes one unit.
	Run func(unit string, env *Env) *Result
	// Replay re-executes a witness and returns a description of what was observed.
	Replay func(v *Violation) string
	// ExeFor returns a suffix of the worker binary for a unit ("" = same binary, "-race" = the -race build).
	ExeFor func(unit string) string
	// Budget in seconds for the whole check (quick, thorough).
	BudgetQuick, BudgetThorough int
}

var registry = map[string]*Check{}

func Register(c *Check) { registry[c.ID] = c }
func Get(id string) *Check { return registry[id] }
func IDs() []string {
	var ids []string
	for k := range registry {
		ids = append(ids, k)
	}
	sort.Strings(ids)
	return ids
}

// FP builds a fingerprint from parts.
func FP(parts ...string) string {
	h := sha256.Sum256([]byte(strings.Join(parts, "\x00")))
	return hex.EncodeToString(h[:8])
}

var procDirs = map[string]string{}

// ProcDir returns one scratch directory per process and tag (scenario bodies wipe and reuse it for every execution).
func ProcDir(tag string) string {
	if d, ok := procDirs[tag]; ok {
		os.RemoveAll(d)
		os.MkdirAll(d, 0755)
		return d
	}
	d := Scratch(tag)
	procDirs[tag] = d
	return d
}

// Scratch returns a fresh scratch directory on tmpfs.
func Scratch(tag string) string {
	base := os.Getenv("VERIF_SCRATCH")
	if base == "" {
		base = fmt.Sprintf("/dev/shm/kvverif-%d", os.Getuid())
	}
	os.MkdirAll(base, 0755)
	d, err := os.MkdirTemp(base, tag+"-")
	if err != nil {
		panic(err)
	}
	return d
}

var progressPath string

var prog struct {
	sync.Mutex
	cur   string
	curFn func() string
	at    time.Time
	n     int
	maxMs int
}

// Progress records the case being evaluated so that a dying worker leaves a witness,
// and so that the stall watchdog can tell a single evaluation that never returns from a long unit.
func Progress(s string) {
	now := time.Now()
	prog.Lock()
	if prog.n > 0 {
		if d := int(now.Sub(prog.at) / time.Millisecond); d > prog.maxMs {
			prog.maxMs = d
		}
	}
	prog.cur, prog.curFn, prog.at = s, nil, now
	prog.n++
	prog.Unlock()
	if progressPath != "" {
		os.WriteFile(progressPath, []byte(s), 0644)
	}
}

// Beat is Progress without the witness file, for engines that run thousands of evaluations per second.
// The description is only built if the evaluation stalls.
func Beat(desc func() string) {
	now := time.Now()
	prog.Lock()
	if prog.n > 0 {
		if d := int(now.Sub(prog.at) / time.Millisecond); d > prog.maxMs {
			prog.maxMs = d
		}
	}
	prog.curFn, prog.at = desc, now
	prog.n++
	prog.Unlock()
}

// Alive is the cheapest beat: something finished, the current case description stays.
func Alive() {
	now := time.Now()
	prog.Lock()
	if prog.n > 0 {
		if d := int(now.Sub(prog.at) / time.Millisecond); d > prog.maxMs {
			prog.maxMs = d
		}
		prog.at = now
	}
	prog.Unlock()
}

// stallLimit is how long ONE evaluation (the work between two Progress calls) may take before the worker
// declares it hung. Evaluations take milliseconds to a few seconds; the limit is orders of magnitude above
// the longest one observed on the unchanged tree (reported as max_case_ms in the evidence).
func stallLimit() time.Duration {
	if v, err := strconv.Atoi(os.Getenv("VERIF_STALL_S")); err == nil && v > 0 {
		return time.Duration(v) * time.Second
	}
	return 75 * time.Second
}

// hungFrame returns the innermost kevo function of a goroutine that is running (not blocked) in the dump.
func hungFrame(dump string) (fn string, stack string) {
	for _, g := range strings.Split(dump, "\n\n") {
		head, _, _ := strings.Cut(g, "\n")
		if !strings.Contains(head, "[running]") && !strings.Contains(head, "[runnable]") {
			continue
		}
		if strings.Contains(g, "fw.stallWatch") {
			continue
		}
		for _, l := range strings.Split(g, "\n") {
			if strings.HasPrefix(l, "github.com/KevoDB/kevo/pkg/") && !strings.Contains(l, "/zzverif/") && !strings.Contains(l, ".Verif") {
				f := strings.TrimPrefix(l, "github.com/KevoDB/kevo/pkg/")
				if i := strings.LastIndex(f, "("); i > 0 {
					f = f[:i]
				}
				return f, g
			}
		}
	}
	return "", ""
}

// blockedFrame returns the innermost kevo function of the main goroutine (goroutine 1) when it is blocked on a lock,
// channel or wait group inside kevo code.
func blockedFrame(dump string) (fn string, stack string) {
	for _, g := range strings.Split(dump, "\n\n") {
		head, _, _ := strings.Cut(g, "\n")
		if !strings.HasPrefix(head, "goroutine 1 [") {
			continue
		}
		if !(strings.Contains(head, "Mutex") || strings.Contains(head, "semacquire") || strings.Contains(head, "chan ") || strings.Contains(head, "select") || strings.Contains(head, "WaitGroup") || strings.Contains(head, "Cond")) {
			return "", ""
		}
		for _, l := range strings.Split(g, "\n") {
			if strings.HasPrefix(l, "github.com/KevoDB/kevo/pkg/") && !strings.Contains(l, "/zzverif/") && !strings.Contains(l, ".Verif") {
				f := strings.TrimPrefix(l, "github.com/KevoDB/kevo/pkg/")
				if i := strings.LastIndex(f, "("); i > 0 {
					f = f[:i]
				}
				return f, g
			}
		}
	}
	return "", ""
}

func stallWatch(id, unit, outPath string) {
	lim := stallLimit()
	for {
		time.Sleep(2 * time.Second)
		prog.Lock()
		n, cur, at := prog.n, prog.cur, prog.at
		if prog.curFn != nil {
			cur = strings.TrimSpace(cur + " " + prog.curFn())
		}
		prog.Unlock()
		if n == 0 || time.Since(at) < lim {
			continue
		}
		buf := make([]byte, 4<<20)
		buf = buf[:runtime.Stack(buf, true)]
		fn, stack := hungFrame(string(buf))
		how := "is still executing"
		if fn == "" {
			// nothing of kevo is running: the evaluation is blocked. Under the controlled scheduler that is the
			// scheduler's business (deadlock witness); elsewhere it is a hang too, after a longer wait
			if time.Since(at) < lim+45*time.Second {
				continue
			}
			fn, stack = blockedFrame(string(buf))
			if fn == "" {
				continue
			}
			how = "is blocked in"
		}
		res := NewResult()
		res.Exhaustive = false
		res.Caps = append(res.Caps, "unit "+unit+" stopped at an evaluation that did not return")
		res.Violate(FP("hang", id, fn), fmt.Sprintf("an evaluation did not return within %ds and %s %s (livelock / unbounded loop / self-deadlock): case %s", int(time.Since(at)/time.Second), how, fn, cur), unit,
			map[string]any{"unit": unit, "kind": "hang", "case": cur, "function": fn, "stack": tail(stack, 3000)})
		b, _ := json.Marshal(res)
		os.WriteFile(outPath, b, 0644)
		os.Exit(0)
	}
}

// Silence redirects stdout/stderr of this process to /dev/null (kevo prints a lot).
// It returns a writer to the original stderr for diagnostics.
func Silence() *os.File {
	orig, _ := syscall.Dup(2)
	null, _ := os.OpenFile("/dev/null", os.O_WRONLY, 0)
	if os.Getenv("VERIF_VERBOSE") == "" {
		// kevo logs to stdout only; stderr stays connected so that fatal errors and race reports reach the parent
		syscall.Dup2(int(null.Fd()), 1)
	}
	return os.NewFile(uintptr(orig), "stderr")
}

// ---- worker side ----

// WorkerMain runs one unit and writes the JSON result to outPath.
func WorkerMain(id, tier, unit, outPath string, deadlineUnix int64, seed int) {
	c := Get(id)
	if c == nil {
		fmt.Fprintln(os.Stderr, "unknown check", id)
		os.Exit(2)
	}
	diag := Silence()
	progressPath = outPath + ".progress"
	if os.Getenv("VERIF_NO_RLIMIT") == "" {
		lim := uint64(24) << 30
		syscall.Setrlimit(syscall.RLIMIT_AS, &syscall.Rlimit{Cur: lim, Max: lim})
	}
	env := &Env{Tier: tier, Seed: seed, Thorough: tier == "thorough"}
	if deadlineUnix > 0 {
		env.Deadline = time.Unix(deadlineUnix, 0)
	}
	go stallWatch(id, unit, outPath)
	var res *Result
	func() {
		defer func() {
			if r := recover(); r != nil {
				res = NewResult()
				res.HarnessErr = fmt.Sprintf("unit %s panicked: %v", unit, r)
				fmt.Fprintf(diag, "unit %s panicked: %v\n", unit, r)
			}
		}()
		res = c.Run(unit, env)
	}()
	prog.Lock()
	if prog.n > 0 {
		if d := int(time.Since(prog.at) / time.Millisecond); d > prog.maxMs {
			prog.maxMs = d
		}
	}
	res.MaxCaseMs = prog.maxMs
	prog.Unlock()
	b, _ := json.Marshal(res)
	if err := os.WriteFile(outPath, b, 0644); err != nil {
		fmt.Fprintln(diag, "cannot write result:", err)
		os.Exit(2)
	}
}

// ---- parent side ----

type known struct {
	Status      string `json:"status"`
	Property    string `json:"property"`
	Fingerprint string `json:"fingerprint"`
	What        string `json:"what"`
	Commit      string `json:"commit,omitempty"`
}

func loadKnown(path, prop string) map[string]known {
	m := map[string]known{}
	f, err := os.Open(path)
	if err != nil {
		return m
	}
	defer f.Close()
	sc := bufio.NewScanner(f)
	sc.Buffer(make([]byte, 1<<20), 1<<24)
	for sc.Scan() {
		line := strings.TrimSpace(sc.Text())
		if line == "" || strings.HasPrefix(line, "#") {
			continue
		}
		var k known
		if json.Unmarshal([]byte(line), &k) == nil && k.Property == prop && k.Status == "open" {
			m[k.Fingerprint] = k
		}
	}
	return m
}

// outDir: evidence and replays go to /verif unless VERIF_OUT redirects them (side runs that must not touch the committed files).
func outDir(verif, sub string) string {
	if o := os.Getenv("VERIF_OUT"); o != "" {
		return filepath.Join(o, sub)
	}
	return filepath.Join(verif, sub)
}

// removeNearNames deletes the entries next to path whose name starts with path's name up to one differing byte (the
// name itself excepted): single-byte variants of the name, and names in which a damaged separator joined it with
// what followed. Only below /dev/shm or the configured scratch base.
func removeNearNames(path string, tail string) {
	parent, name := filepath.Dir(path), filepath.Base(path)
	if !strings.HasPrefix(parent, "/dev/shm") && (os.Getenv("VERIF_SCRATCH") == "" || !strings.HasPrefix(parent, os.Getenv("VERIF_SCRATCH"))) {
		return
	}
	ents, err := os.ReadDir(parent)
	if err != nil {
		return
	}
	for _, e := range ents {
		// a damaged byte >= 0x80 comes back from the JSON decoder as U+FFFD (three bytes)
		n := strings.ReplaceAll(e.Name(), "\uFFFD", "\x00")
		if len(n) < len(name) || e.Name() == name {
			continue
		}
		d := 0
		for i := 0; i < len(name); i++ {
			if n[i] != name[i] {
				d++
			}
		}
		if d == 1 || (d == 0 && tail != "" && strings.HasSuffix(n, tail)) || (d == 0 && len(n) > len(name) && !isNameByte(n[len(name)])) || (d == 0 && len(n) > len(name) && strings.Contains(n[len(name):], "wu")) {
			os.RemoveAll(filepath.Join(parent, e.Name()))
		}
	}
}

func isNameByte(b byte) bool {
	return b >= '0' && b <= '9' || b >= 'a' && b <= 'z' || b >= 'A' && b <= 'Z' || b == '-'
}

// ParentMain runs a whole check; returns the process exit code.
func ParentMain(id, tier string) int {
	c := Get(id)
	if c == nil {
		fmt.Println("HARNESS-ERROR: unknown check", id)
		return 2
	}
	verif := os.Getenv("VERIF")
	if verif == "" {
		verif = "/verif"
	}
	seed, _ := strconv.Atoi(os.Getenv("VERIF_SEED"))
	t0 := time.Now()
	budget := c.BudgetQuick
	if tier == "thorough" {
		budget = c.BudgetThorough
	}
	if b, err := strconv.Atoi(os.Getenv("VERIF_BUDGET_S")); err == nil && b > 0 {
		budget = b
	}
	if budget == 0 {
		budget = 100
	}
	deadline := t0.Add(time.Duration(budget) * time.Second)
	units := c.Units(tier)
	// VERIF_SEED only rotates the visiting order (nothing is sampled)
	if seed != 0 && len(units) > 1 {
		k := ((seed % len(units)) + len(units)) % len(units)
		units = append(units[k:], units[:k]...)
	}
	workers := 16
	if w, err := strconv.Atoi(os.Getenv("VERIF_WORKERS")); err == nil && w > 0 {
		workers = w
	}
	tmp := Scratch("res-" + id)
	defer os.RemoveAll(tmp)
	// C20 damages single bytes of a manifest that stores absolute paths under this directory: an engine opened on
	// such a manifest creates directories whose names differ from ours in one byte. They are removed with us.
	defer removeNearNames(tmp, "")
	defer removeNearNames(filepath.Dir(tmp), filepath.Base(tmp))
	total := NewResult()
	var mu sync.Mutex
	var wg sync.WaitGroup
	ch := make(chan int)
	exe, _ := os.Executable()
	skipped := 0
	for w := 0; w < workers; w++ {
		wg.Add(1)
		go func() {
			defer wg.Done()
			for i := range ch {
				u := units[i]
				if time.Now().After(deadline) {
					mu.Lock()
					skipped++
					mu.Unlock()
					continue
				}
				out := filepath.Join(tmp, fmt.Sprintf("u%d.json", i))
				wexe := exe
				if c.ExeFor != nil {
					wexe = exe + c.ExeFor(u)
				}
				res := runWorker(wexe, id, tier, u, out, deadline, seed)
				mu.Lock()
				total.Merge(res)
				mu.Unlock()
			}
		}()
	}
	for i := range units {
		ch <- i
	}
	close(ch)
	wg.Wait()
	if skipped > 0 {
		total.Exhaustive = false
		total.Caps = append(total.Caps, fmt.Sprintf("%d of %d units not started before the %ds budget ended", skipped, len(units), budget))
	}
	wall := time.Since(t0).Seconds()

	// classify
	kn := loadKnown(filepath.Join(verif, "known_findings.jsonl"), id)
	os.MkdirAll(outDir(verif, "replays"), 0755)
	newViol := 0
	knownSeen := 0
	sort.Slice(total.Violations, func(i, j int) bool { return total.Violations[i].Fingerprint < total.Violations[j].Fingerprint })
	for i := range total.Violations {
		v := &total.Violations[i]
		if k, ok := kn[v.Fingerprint]; ok {
			fmt.Printf("KNOWN-FINDING: property=%s fingerprint=%s %s\n", id, v.Fingerprint, k.What)
			knownSeen++
			continue
		}
		newViol++
		path := filepath.Join(outDir(verif, "replays"), fmt.Sprintf("%s-%s.json", id, v.Fingerprint))
		b, _ := json.MarshalIndent(map[string]any{"property": id, "fingerprint": v.Fingerprint, "what": v.What, "unit": v.Unit, "tier": tier, "witness": v.Witness}, "", " ")
		os.WriteFile(path, b, 0644)
		if newViol <= 25 {
			fmt.Printf("VIOLATION property=%s replay=%s\n  %s\n", id, path, oneLine(v.What, 400))
		}
	}
	if newViol > 25 {
		fmt.Printf("(%d further violations not printed; see evidence)\n", newViol-25)
	}
	writeEvidence(verif, c, tier, seed, total, wall, newViol, knownSeen, len(units))
	if total.HarnessErr != "" {
		fmt.Printf("HARNESS-ERROR property=%s %s\n", id, total.HarnessErr)
		if newViol == 0 {
			return 2
		}
	}
	if newViol > 0 {
		return 1
	}
	fmt.Printf("OK property=%s tier=%s evaluations=%d states=%d transitions=%d exhaustive=%v known_findings=%d wall=%.1fs\n",
		id, tier, total.Evaluations, total.States, total.Transitions, total.Exhaustive, knownSeen, wall)
	return 0
}

func oneLine(s string, n int) string {
	s = strings.ReplaceAll(s, "\n", " | ")
	if len(s) > n {
		s = s[:n] + "…"
	}
	return s
}

func runWorker(exe, id, tier, unit, out string, deadline time.Time, seed int) *Result {
	attempt := func() (*Result, string) {
		os.Remove(out)
		cmd := exec.Command(exe, "unit", id, tier, unit, out, strconv.FormatInt(deadline.Unix(), 10), strconv.Itoa(seed))
		tmpd := filepath.Join(filepath.Dir(out), "w"+strings.TrimSuffix(filepath.Base(out), ".json"), "tmp")
		os.MkdirAll(tmpd, 0755)
		defer os.RemoveAll(tmpd)
		// private TMPDIR on tmpfs: kevo serialises bloom filters through temp files and a shared on-disk /tmp serialises the workers
		scr := filepath.Join(filepath.Dir(out), "w"+strings.TrimSuffix(filepath.Base(out), ".json"), "scratch")
		os.MkdirAll(scr, 0755)
		defer os.RemoveAll(scr)
		cmd.Env = append(os.Environ(), "GOMAXPROCS=1", "GOGC=400", "TMPDIR="+tmpd, "VERIF_SCRATCH="+scr)
		if strings.HasSuffix(exe, "-race") {
			// free-running pass: real parallelism, reports collected from a log file
			cmd.Env = append(os.Environ(), "GOMAXPROCS=4", "TMPDIR="+tmpd, "VERIF_SCRATCH="+scr, "GORACE=halt_on_error=0 log_path="+out+".race")
		}
		var stderr strings.Builder
		cmd.Stderr = &stderr
		cmd.SysProcAttr = &syscall.SysProcAttr{Setpgid: true}
		if err := cmd.Start(); err != nil {
			return nil, "cannot start worker: " + err.Error()
		}
		done := make(chan error, 1)
		go func() { done <- cmd.Wait() }()
		// hard watchdog: the unit's own deadline plus grace
		grace := time.Until(deadline) + 90*time.Second
		if grace < 90*time.Second {
			grace = 90 * time.Second
		}
		select {
		case err := <-done:
			b, rerr := os.ReadFile(out)
			if rerr != nil {
				msg := "worker died without result"
				if err != nil {
					msg += ": " + err.Error()
				}
				if p, perr := os.ReadFile(out + ".progress"); perr == nil {
					msg += " while evaluating: " + string(p)
				}
				if strings.Contains(stderr.String(), "WARNING: DATA RACE") {
					st := stderr.String()
					return nil, msg + " stderr: " + tail(st[strings.Index(st, "WARNING: DATA RACE"):], 6000)
				}
				return nil, msg + " stderr: " + oneLine(tail(stderr.String(), 1200), 1200)
			}
			var r Result
			if json.Unmarshal(b, &r) != nil {
				return nil, "bad result json"
			}
			if r.Counters == nil {
				r.Counters = map[string]int{}
			}
			return &r, ""
		case <-time.After(grace):
			syscall.Kill(-cmd.Process.Pid, syscall.SIGKILL)
			<-done
			return nil, "worker exceeded watchdog"
		}
	}
	r, msg := attempt()
	if r == nil && msg == "worker exceeded watchdog" && !strings.HasSuffix(exe, "-race") {
		// Units look at their deadline between evaluations and return; a unit still running 90 s after it is one
		// whose current evaluation does not return. Re-running it after the deadline would return at once with
		// nothing evaluated and hide that.
		res := NewResult()
		res.Exhaustive = false
		prog := "(no case recorded)"
		if p, perr := os.ReadFile(out + ".progress"); perr == nil {
			prog = string(p)
		}
		res.Violate(FP("hang", id, unit), fmt.Sprintf("unit %s was still running 90 s after its deadline: an evaluation does not return; last case: %s", unit, prog), unit,
			map[string]any{"unit": unit, "kind": "hang", "case": prog})
		return res
	}
	if strings.HasSuffix(exe, "-race") {
		// race reports of the -race build are the witnesses, whether or not the unit completed
		files, _ := filepath.Glob(out + ".race*")
		var reps []string
		for _, f := range files {
			b, _ := os.ReadFile(f)
			os.Remove(f)
			for _, rep := range strings.Split(string(b), "==================") {
				if strings.Contains(rep, "WARNING: DATA RACE") {
					reps = append(reps, rep)
				}
			}
		}
		if r == nil && len(reps) == 0 {
			// fall through to the generic dead-worker handling
		} else {
			if r == nil {
				r = NewResult()
				r.Notes = append(r.Notes, "race unit "+unit+" did not complete: "+oneLine(msg, 300))
			}
			for _, rep := range reps {
				frames, skip := raceFrames(rep)
				if skip {
					r.Count("race_reports_out_of_scope_or_harness_internal", 1)
					continue
				}
				r.Violate(FP(id, "data-race", strings.Join(frames, "|")), "data race: "+strings.Join(frames, " <-> ")+" (first seen in "+unit+")", unit,
					map[string]any{"unit": unit, "kind": "data-race", "frames": frames, "report": tail(rep, 5000)})
			}
			return r
		}
	}
	if r != nil {
		return r
	}
	// a dead worker (fatal error, OOM kill) is confirmed by one re-run
	r2, msg2 := attempt()
	if r2 != nil {
		r2.Notes = append(r2.Notes, "unit "+unit+": first attempt failed ("+msg+"), second succeeded")
		return r2
	}
	res := NewResult()
	res.Exhaustive = false
	prog := ""
	if i := strings.Index(msg2, " while evaluating: "); i >= 0 {
		prog = msg2[i+19:]
		if j := strings.Index(prog, " stderr: "); j >= 0 {
			prog = prog[:j]
		}
	}
	res.Violate(FP("worker-death", id, unit, prog), "worker process died twice on unit "+unit+": "+msg2, unit, map[string]any{"unit": unit, "kind": "worker-death", "case": prog, "detail": msg2})
	return res
}

// raceFrames extracts the functions of the two racing accesses (first kevo frame of each stack) from a race report.
// skip is true for reports that are out of the property's scope (an access made by Close) or internal to the harness.
func raceFrames(rep string) (frames []string, skip bool) {
	lines := strings.Split(rep, "\n")
	inStack := false
	cur := ""
	stackHasClose := false
	flush := func() {
		if inStack {
			if cur == "" {
				cur = "(no kevo frame)"
			}
			frames = append(frames, cur)
		}
		inStack, cur = false, ""
	}
	for _, l := range lines {
		t := strings.TrimSpace(l)
		if strings.HasPrefix(t, "Read at") || strings.HasPrefix(t, "Write at") || strings.HasPrefix(t, "Previous read at") || strings.HasPrefix(t, "Previous write at") ||
			strings.HasPrefix(t, "Atomic") || strings.HasPrefix(t, "Previous atomic") {
			flush()
			inStack = true
			continue
		}
		if strings.HasPrefix(t, "Goroutine ") {
			flush()
			continue
		}
		if inStack && strings.HasSuffix(t, "()") {
			if strings.Contains(t, "engine.(*EngineFacade).Close") || strings.Contains(t, "storage.(*Manager).Close") {
				stackHasClose = true
			}
			if cur == "" && strings.Contains(t, "KevoDB/kevo/pkg/") && !strings.Contains(t, "zzverif") && !strings.Contains(t, "Verif") {
				f := t[strings.LastIndex(t, "/pkg/")+5:]
				cur = strings.TrimSuffix(f, "()")
			}
		}
		if t == "" {
			flush()
		}
	}
	flush()
	if len(frames) > 2 {
		frames = frames[:2]
	}
	sort.Strings(frames)
	allInternal := true
	for _, f := range frames {
		if f != "(no kevo frame)" {
			allInternal = false
		}
	}
	return frames, stackHasClose || allInternal || len(frames) < 2
}

func tail(s string, n int) string {
	if len(s) > n {
		return s[len(s)-n:]
	}
	return s
}

func writeEvidence(verif string, c *Check, tier string, seed int, r *Result, wall float64, newViol, knownSeen, nunits int) {
	cov := map[string]any{
		"evaluations":         r.Evaluations,
		"distinct_nontrivial": r.Nontrivial,
		"rule":                c.Rule,
		"samples":             r.Samples,
		"exhaustive":          r.Exhaustive,
		"units":               nunits,
		"counters":            r.Counters,
	}
	if c.Level == "model_checking" {
		cov["states"] = r.States
		cov["transitions"] = r.Transitions
		cov["traces_validated_against_impl"] = r.Traces
	}
	if len(r.Caps) > 0 {
		caps := r.Caps
		if len(caps) > 12 {
			caps = append(append([]string{}, caps[:12]...), fmt.Sprintf("... and %d more", len(r.Caps)-12))
		}
		cov["caps"] = caps
	}
	if len(r.Notes) > 0 {
		cov["notes"] = r.Notes
	}
	if r.MaxCaseMs > 0 {
		cov["longest_single_evaluation_ms"] = r.MaxCaseMs
		cov["stall_limit_s"] = int(stallLimit() / time.Second)
	}
	if r.Unstable > 0 {
		cov["unstable_witnesses_not_reported"] = r.Unstable
	}
	if len(r.Samples) == 0 {
		cov["samples"] = []any{"(no case completed)"}
	}
	cov["known_findings_seen"] = knownSeen
	ev := map[string]any{
		"property_id": c.ID,
		"tier":        tier,
		"seed":        seed,
		"level":       c.Level,
		"coverage":    cov,
		"assumptions": c.Assumptions,
		"wall_s":      wall,
		"violations":  newViol,
	}
	b, _ := json.MarshalIndent(ev, "", " ")
	os.MkdirAll(outDir(verif, "evidence"), 0755)
	os.WriteFile(filepath.Join(outDir(verif, "evidence"), c.ID+".json"), b, 0644)
}
