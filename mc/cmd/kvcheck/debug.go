package main

import (
	"fmt"
	"os"

	"verif/mc/explore"
	"verif/mc/fw"
	"verif/mc/harness"
)

// debugDiff runs the root execution of a scenario twice and prints the first difference of the traces.
func debugDiff(name string) {
	diag := fw.Silence()
	sc := harness.FindScenario(name)
	if sc == nil {
		fmt.Fprintln(diag, "no scenario", name)
		os.Exit(2)
	}
	a, _ := explore.RunOnce(sc, nil, -1, nil, true)
	b, _ := explore.RunOnce(sc, nil, -1, nil, true)
	fmt.Fprintln(diag, "len", len(a.Trace), len(b.Trace), "choices", len(a.Choices), len(b.Choices), a.Out, b.Out)
	for i := 0; i < len(a.Trace) && i < len(b.Trace); i++ {
		if a.Trace[i] != b.Trace[i] {
			lo := i - 8
			if lo < 0 {
				lo = 0
			}
			for j := lo; j < i+6 && j < len(a.Trace) && j < len(b.Trace); j++ {
				fmt.Fprintf(diag, "%d: %-60s | %s\n", j, a.Trace[j], b.Trace[j])
			}
			return
		}
	}
	fmt.Fprintln(diag, "traces identical on common prefix")
}
