package main

import (
	"encoding/json"
	"fmt"
	"os"
	"strconv"

	"verif/mc/explore"
	"verif/mc/harness/smoke"
)

func main() {
	if len(os.Args) > 1 && os.Args[1] == "smoke" {
		b := 2
		if len(os.Args) > 2 {
			b, _ = strconv.Atoi(os.Args[2])
		}
		st := explore.Explore(smoke.Scenario(), explore.Options{Bound: b, Cache: len(os.Args) > 3})
		j, _ := json.MarshalIndent(st, "", " ")
		fmt.Println(string(j))
		return
	}
}
