package main

import (
	"encoding/json"
	"fmt"
	"os"
	"runtime/pprof"
	"strconv"
	"time"

	"verif/mc/fw"
	"verif/mc/harness"
)

func main() {
	if len(os.Args) < 2 {
		fmt.Println("usage: kvcheck check <ID> <tier> | unit ... | replay <file> | list")
		os.Exit(2)
	}
	switch os.Args[1] {
	case "list":
		for _, id := range fw.IDs() {
			fmt.Println(id)
		}
	case "units":
		for _, u := range fw.Get(os.Args[2]).Units(os.Args[3]) {
			fmt.Println(u)
		}
	case "check":
		os.Exit(fw.ParentMain(os.Args[2], os.Args[3]))
	case "unit":
		dl, _ := strconv.ParseInt(os.Args[6], 10, 64)
		seed, _ := strconv.Atoi(os.Args[7])
		fw.WorkerMain(os.Args[2], os.Args[3], os.Args[4], os.Args[5], dl, seed)
	case "one":
		// run one unit in-process and print its result (debugging)
		c := fw.Get(os.Args[2])
		diag := fw.Silence()
		if pf := os.Getenv("VERIF_PROF"); pf != "" {
			f, _ := os.Create(pf)
			pprof.StartCPUProfile(f)
			defer pprof.StopCPUProfile()
		}
		env := &fw.Env{Tier: os.Args[3], Thorough: os.Args[3] == "thorough"}
		if d, err := strconv.Atoi(os.Getenv("VERIF_ONE_S")); err == nil {
			env.Deadline = time.Now().Add(time.Duration(d) * time.Second)
		}
		r := c.Run(os.Args[4], env)
		b, _ := json.MarshalIndent(r, "", " ")
		fmt.Fprintln(diag, string(b))
	case "reprun":
		diag := fw.Silence()
		n, _ := strconv.Atoi(os.Args[3])
		fmt.Fprintln(diag, harness.DebugRep(os.Args[2], n))
	case "diff":
		debugDiff(os.Args[2])
	case "replay":
		b, err := os.ReadFile(os.Args[2])
		if err != nil {
			fmt.Println(err)
			os.Exit(2)
		}
		var w struct {
			Property    string          `json:"property"`
			Fingerprint string          `json:"fingerprint"`
			What        string          `json:"what"`
			Unit        string          `json:"unit"`
			Witness     json.RawMessage `json:"witness"`
		}
		json.Unmarshal(b, &w)
		c := fw.Get(w.Property)
		if c == nil || c.Replay == nil {
			fmt.Println("no replay for", w.Property)
			os.Exit(2)
		}
		var wit any
		json.Unmarshal(w.Witness, &wit)
		diag := fw.Silence()
		out := c.Replay(&fw.Violation{Fingerprint: w.Fingerprint, What: w.What, Unit: w.Unit, Witness: wit})
		fmt.Fprintln(diag, out)
	default:
		fmt.Println("unknown command")
		os.Exit(2)
	}
}
