// kvinstr: source-to-source instrumenter for kevo (purely syntactic, go/ast).
// It writes rewritten copies of the non-test .go files of <src>/pkg to <out> and
// emits an overlay JSON (for `go build -overlay`) that maps the files under
// /repo to the rewritten copies, adds the runtime shim packages as
// github.com/KevoDB/kevo/pkg/zzverif/* and adds export files.
package main

import (
	"bytes"
	"encoding/json"
	"flag"
	"fmt"
	"go/ast"
	"go/parser"
	"go/printer"
	"go/token"
	"os"
	"path/filepath"
	"reflect"
	"strconv"
	"strings"
)

const modPath = "github.com/KevoDB/kevo"
const shimBase = modPath + "/pkg/zzverif/"

var (
	src     = flag.String("src", "/repo", "kevo source tree to instrument")
	repo    = flag.String("repo", "/repo", "path the module is resolved at (overlay keys)")
	out     = flag.String("out", "", "directory for rewritten files")
	rt      = flag.String("rt", "/verif/mc/rt", "runtime shim sources")
	export  = flag.String("export", "/verif/mc/export", "export files, mirrored tree (pkg/...)")
	profile = flag.String("profile", "full", "full | fs | none")
	ovl     = flag.String("overlay", "", "overlay json output path")
	tests   = flag.Bool("tests", false, "also rewrite _test.go files")
)

// packages (relative to pkg/) that keep real primitives
var excluded = []string{"stats", "common/log", "bloom_filter", "zzverif", "version"}

func isExcluded(rel string) bool {
	for _, e := range excluded {
		if rel == "pkg/"+e || strings.HasPrefix(rel, "pkg/"+e+"/") {
			return true
		}
	}
	return false
}

type importRule struct{ shim, name string }

func rules() map[string]importRule {
	switch *profile {
	case "full":
		return map[string]importRule{
			"sync":        {"vsync", "sync"},
			"sync/atomic": {"vatomic", "atomic"},
			"time":        {"vtime", "time"},
			"context":     {"vcontext", "context"},
			"os":          {"vos", "os"},
			"math/rand":   {"vrand", "rand"},
		}
	case "fs":
		return map[string]importRule{
			"os":   {"vos", "os"},
			"time": {"vtime", "time"},
		}
	}
	return map[string]importRule{}
}

func main() {
	flag.Parse()
	if *out == "" || *ovl == "" {
		fmt.Fprintln(os.Stderr, "usage: kvinstr -out DIR -overlay FILE [-src DIR] [-profile full|fs|none]")
		os.Exit(2)
	}
	replace := map[string]string{}
	must(os.MkdirAll(*out, 0755))

	// 1. kevo sources
	seen := map[string]bool{}
	walkErr := filepath.Walk(*src, func(p string, info os.FileInfo, err error) error {
		if err != nil {
			return err
		}
		rel, _ := filepath.Rel(*src, p)
		if info.IsDir() {
			if strings.HasPrefix(info.Name(), ".") && rel != "." {
				return filepath.SkipDir
			}
			return nil
		}
		if !strings.HasSuffix(p, ".go") && info.Name() != "go.mod" && info.Name() != "go.sum" {
			return nil
		}
		seen[rel] = true
		key := filepath.Join(*repo, rel)
		isGo := strings.HasSuffix(p, ".go")
		isTest := strings.HasSuffix(p, "_test.go")
		inPkg := strings.HasPrefix(rel, "pkg/")
		rewrite := isGo && inPkg && !strings.HasSuffix(p, ".pb.go") && !isExcluded(filepath.Dir(rel)) && (!isTest || *tests) && *profile != "none"
		if rewrite {
			dst := filepath.Join(*out, "src", rel)
			changed, err := rewriteFile(p, dst)
			if err != nil {
				return fmt.Errorf("%s: %w", rel, err)
			}
			if changed {
				replace[key] = dst
				return nil
			}
		}
		if *src != *repo {
			replace[key] = p
		}
		return nil
	})
	must(walkErr)
	if *src != *repo {
		// files that exist in repo but not in src are deleted
		filepath.Walk(*repo, func(p string, info os.FileInfo, err error) error {
			if err != nil {
				return nil
			}
			rel, _ := filepath.Rel(*repo, p)
			if info.IsDir() {
				if strings.HasPrefix(info.Name(), ".") && rel != "." {
					return filepath.SkipDir
				}
				return nil
			}
			if strings.HasSuffix(p, ".go") && !seen[rel] {
				replace[p] = ""
			}
			return nil
		})
	}

	// 2. runtime shims
	ents, err := os.ReadDir(*rt)
	must(err)
	for _, d := range ents {
		if !d.IsDir() {
			continue
		}
		files, _ := filepath.Glob(filepath.Join(*rt, d.Name(), "*.go"))
		for _, f := range files {
			if strings.HasSuffix(f, "_test.go") {
				continue
			}
			replace[filepath.Join(*repo, "pkg/zzverif", d.Name(), filepath.Base(f))] = f
		}
	}

	// 3. export files (mirrored tree): only for directories that exist in src
	filepath.Walk(*export, func(p string, info os.FileInfo, err error) error {
		if err != nil || info.IsDir() || !strings.HasSuffix(p, ".go") {
			return nil
		}
		rel, _ := filepath.Rel(*export, p)
		if _, err := os.Stat(filepath.Join(*src, filepath.Dir(rel))); err != nil {
			return nil
		}
		dst := filepath.Join(*out, "export", rel)
		changed, err := rewriteFile(p, dst)
		must(err)
		if changed {
			replace[filepath.Join(*repo, rel)] = dst
		} else {
			replace[filepath.Join(*repo, rel)] = p
		}
		return nil
	})

	b, _ := json.MarshalIndent(map[string]any{"Replace": replace}, "", " ")
	must(os.WriteFile(*ovl, b, 0644))
}

func must(err error) {
	if err != nil {
		fmt.Fprintln(os.Stderr, "HARNESS-ERROR kvinstr:", err)
		os.Exit(2)
	}
}

type rewriter struct {
	fset      *token.FileSet
	needSched bool
	needVos   bool
	n         int
	full      bool
	filepathName string
}

func rewriteFile(path, dst string) (bool, error) {
	fset := token.NewFileSet()
	f, err := parser.ParseFile(fset, path, nil, parser.SkipObjectResolution)
	if err != nil {
		return false, err
	}
	rw := &rewriter{fset: fset, full: *profile == "full"}
	changed := false
	rl := rules()
	for _, im := range f.Imports {
		p, _ := strconv.Unquote(im.Path.Value)
		if p == "path/filepath" {
			rw.filepathName = "filepath"
			if im.Name != nil {
				rw.filepathName = im.Name.Name
			}
		}
		r, ok := rl[p]
		if !ok {
			continue
		}
		if im.Name != nil && (im.Name.Name == "_" || im.Name.Name == ".") {
			continue
		}
		name := r.name
		if im.Name != nil {
			name = im.Name.Name
		}
		im.Name = ast.NewIdent(name)
		im.Path.Value = strconv.Quote(shimBase + r.shim)
		changed = true
	}
	if rw.full || *profile == "fs" {
		rw.walk(reflect.ValueOf(f))
	}
	if rw.needSched {
		addImport(f, "vsched", shimBase+"vsched")
		changed = true
	}
	if rw.needVos {
		addImport(f, "vosglob", shimBase+"vos")
		changed = true
	}
	if !changed {
		return false, nil
	}
	f.Comments = nil
	var buf bytes.Buffer
	cfg := printer.Config{Mode: printer.SourcePos | printer.UseSpaces | printer.TabIndent, Tabwidth: 8}
	if err := cfg.Fprint(&buf, fset, f); err != nil {
		return false, err
	}
	if err := os.MkdirAll(filepath.Dir(dst), 0755); err != nil {
		return false, err
	}
	return true, os.WriteFile(dst, buf.Bytes(), 0644)
}

func addImport(f *ast.File, name, path string) {
	spec := &ast.ImportSpec{Name: ast.NewIdent(name), Path: &ast.BasicLit{Kind: token.STRING, Value: strconv.Quote(path)}}
	decl := &ast.GenDecl{Tok: token.IMPORT, Specs: []ast.Spec{spec}}
	f.Decls = append([]ast.Decl{decl}, f.Decls...)
	f.Imports = append(f.Imports, spec)
}

var (
	exprType = reflect.TypeOf((*ast.Expr)(nil)).Elem()
	stmtType = reflect.TypeOf((*ast.Stmt)(nil)).Elem()
)

// walk rewrites all ast.Expr / ast.Stmt values reachable from v (post-order,
// except selects, whose communication clauses are handled as a unit).
func (rw *rewriter) walk(v reflect.Value) {
	switch v.Kind() {
	case reflect.Ptr:
		if v.IsNil() {
			return
		}
		if _, isObj := v.Interface().(*ast.Object); isObj {
			return
		}
		if _, isScope := v.Interface().(*ast.Scope); isScope {
			return
		}
		rw.walk(v.Elem())
	case reflect.Interface:
		if v.IsNil() {
			return
		}
		// pre-order hook for select and 2-value receive
		if v.Type() == stmtType {
			if sel, ok := v.Interface().(*ast.SelectStmt); ok && rw.full {
				v.Set(reflect.ValueOf(rw.rewriteSelect(sel)))
				return
			}
			if as, ok := v.Interface().(*ast.AssignStmt); ok && rw.full && len(as.Lhs) == 2 && len(as.Rhs) == 1 {
				if u, ok := as.Rhs[0].(*ast.UnaryExpr); ok && u.Op == token.ARROW {
					rw.walk(reflect.ValueOf(&u.X).Elem())
					for i := range as.Lhs {
						rw.walk(reflect.ValueOf(&as.Lhs[i]).Elem())
					}
					as.Rhs[0] = rw.call("Recv2", u.X)
					return
				}
			}
		}
		rw.walk(v.Elem())
		if !v.CanSet() {
			return
		}
		if v.Type() == exprType {
			if n := rw.rewriteExpr(v.Interface().(ast.Expr)); n != nil {
				v.Set(reflect.ValueOf(n))
			}
		} else if v.Type() == stmtType {
			if n := rw.rewriteStmt(v.Interface().(ast.Stmt)); n != nil {
				v.Set(reflect.ValueOf(n))
			}
		}
	case reflect.Struct:
		for i := 0; i < v.NumField(); i++ {
			rw.walk(v.Field(i))
		}
	case reflect.Slice:
		for i := 0; i < v.Len(); i++ {
			rw.walk(v.Index(i))
		}
	}
}

func (rw *rewriter) call(fn string, args ...ast.Expr) *ast.CallExpr {
	rw.needSched = true
	return &ast.CallExpr{Fun: &ast.SelectorExpr{X: ast.NewIdent("vsched"), Sel: ast.NewIdent(fn)}, Args: args}
}

func (rw *rewriter) rewriteExpr(e ast.Expr) ast.Expr {
	switch x := e.(type) {
	case *ast.UnaryExpr:
		if x.Op == token.ARROW && rw.full {
			return rw.call("Recv", x.X)
		}
	case *ast.CallExpr:
		if id, ok := x.Fun.(*ast.Ident); ok && id.Name == "close" && len(x.Args) == 1 && rw.full {
			return rw.call("Close", x.Args[0])
		}
	case *ast.SelectorExpr:
		if id, ok := x.X.(*ast.Ident); ok && rw.filepathName != "" && id.Name == rw.filepathName && x.Sel.Name == "Glob" {
			rw.needVos = true
			return &ast.SelectorExpr{X: ast.NewIdent("vosglob"), Sel: ast.NewIdent("Glob")}
		}
	}
	return nil
}

func (rw *rewriter) rewriteStmt(s ast.Stmt) ast.Stmt {
	if !rw.full {
		return nil
	}
	switch x := s.(type) {
	case *ast.SendStmt:
		return &ast.ExprStmt{X: rw.call("Send", x.Chan, x.Value)}
	case *ast.GoStmt:
		return rw.rewriteGo(x)
	}
	return nil
}

func (rw *rewriter) fresh(p string) *ast.Ident {
	rw.n++
	return ast.NewIdent(fmt.Sprintf("_%s%d", p, rw.n))
}

func (rw *rewriter) rewriteGo(g *ast.GoStmt) ast.Stmt {
	c := g.Call
	var pre []ast.Stmt
	fun := c.Fun
	if _, isLit := fun.(*ast.FuncLit); !isLit {
		if _, isIdent := fun.(*ast.Ident); !isIdent {
			id := rw.fresh("gf")
			pre = append(pre, &ast.AssignStmt{Lhs: []ast.Expr{id}, Tok: token.DEFINE, Rhs: []ast.Expr{fun}})
			fun = id
		}
	}
	var args []ast.Expr
	for _, a := range c.Args {
		id := rw.fresh("ga")
		pre = append(pre, &ast.AssignStmt{Lhs: []ast.Expr{id}, Tok: token.DEFINE, Rhs: []ast.Expr{a}})
		args = append(args, id)
	}
	inner := &ast.CallExpr{Fun: fun, Args: args, Ellipsis: c.Ellipsis}
	if c.Ellipsis.IsValid() {
		inner.Ellipsis = 1
	}
	lit := &ast.FuncLit{Type: &ast.FuncType{Params: &ast.FieldList{}}, Body: &ast.BlockStmt{List: []ast.Stmt{&ast.ExprStmt{X: inner}}}}
	goCall := &ast.ExprStmt{X: rw.call("Go", lit)}
	if len(pre) == 0 {
		return goCall
	}
	return &ast.BlockStmt{List: append(pre, goCall)}
}

func (rw *rewriter) rewriteSelect(sel *ast.SelectStmt) ast.Stmt {
	var caseVars []ast.Expr
	var caseCtors []ast.Expr
	var clauses []ast.Stmt
	hasDefault := false
	idx := 0
	for _, cl := range sel.Body.List {
		cc := cl.(*ast.CommClause)
		// rewrite the body first (nested constructs)
		for i := range cc.Body {
			rw.walk(reflect.ValueOf(&cc.Body[i]).Elem())
		}
		if cc.Comm == nil {
			hasDefault = true
			clauses = append(clauses, &ast.CaseClause{List: nil, Body: cc.Body})
			continue
		}
		cv := rw.fresh("vs")
		var body []ast.Stmt
		switch st := cc.Comm.(type) {
		case *ast.SendStmt:
			rw.walk(reflect.ValueOf(&st.Chan).Elem())
			rw.walk(reflect.ValueOf(&st.Value).Elem())
			caseCtors = append(caseCtors, rw.call("CaseSend", st.Chan, st.Value))
		case *ast.ExprStmt:
			u := unparen(st.X).(*ast.UnaryExpr)
			rw.walk(reflect.ValueOf(&u.X).Elem())
			caseCtors = append(caseCtors, rw.call("CaseRecv", u.X))
		case *ast.AssignStmt:
			u := unparen(st.Rhs[0]).(*ast.UnaryExpr)
			rw.walk(reflect.ValueOf(&u.X).Elem())
			caseCtors = append(caseCtors, rw.call("CaseRecv", u.X))
			rhs := []ast.Expr{&ast.CallExpr{Fun: &ast.SelectorExpr{X: cv, Sel: ast.NewIdent("Val")}}}
			if len(st.Lhs) == 2 {
				rhs = append(rhs, &ast.CallExpr{Fun: &ast.SelectorExpr{X: cv, Sel: ast.NewIdent("Ok")}})
			}
			body = append(body, &ast.AssignStmt{Lhs: st.Lhs, Tok: st.Tok, Rhs: rhs})
			if st.Tok == token.DEFINE {
				// silence "declared and not used" for blank-free but unused names is the original's problem; nothing to add
			}
		default:
			panic(fmt.Sprintf("unsupported comm clause %T", cc.Comm))
		}
		caseVars = append(caseVars, cv)
		body = append(body, cc.Body...)
		clauses = append(clauses, &ast.CaseClause{List: []ast.Expr{&ast.BasicLit{Kind: token.INT, Value: strconv.Itoa(idx)}}, Body: body})
		idx++
	}
	hd := "false"
	if hasDefault {
		hd = "true"
	} else {
		// keeps the statement terminating when every case terminates (a select without default is)
		clauses = append(clauses, &ast.CaseClause{List: nil, Body: []ast.Stmt{&ast.ExprStmt{X: &ast.CallExpr{Fun: ast.NewIdent("panic"), Args: []ast.Expr{&ast.BasicLit{Kind: token.STRING, Value: `"vsched: select returned no case"`}}}}}})
	}
	args := append([]ast.Expr{ast.NewIdent(hd)}, caseVars...)
	sw := &ast.SwitchStmt{Tag: rw.call("Select", args...), Body: &ast.BlockStmt{List: clauses}}
	if len(caseVars) > 0 {
		sw.Init = &ast.AssignStmt{Lhs: caseVars, Tok: token.DEFINE, Rhs: caseCtors}
	}
	return sw
}

func unparen(e ast.Expr) ast.Expr {
	for {
		p, ok := e.(*ast.ParenExpr)
		if !ok {
			return e
		}
		e = p.X
	}
}
