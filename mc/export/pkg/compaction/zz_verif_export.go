package compaction

import "sort"

// VerifTombstones lists the keys known to the tombstone tracker.
func (c *DefaultCompactionCoordinator) VerifTombstones() []string {
	t, ok := c.tombstoneManager.(*TombstoneTracker)
	if !ok {
		return nil
	}
	var ks []string
	for k := range t.deletions {
		ks = append(ks, k)
	}
	sort.Strings(ks)
	return ks
}
