package replication

import (
	replication_proto "github.com/KevoDB/kevo/proto/kevo/replication"
)

// VerifSetClient installs an in-memory client (the verification harness replaces the gRPC connection).
func (r *Replica) VerifSetClient(c replication_proto.WALReplicationServiceClient) {
	r.mu.Lock()
	defer r.mu.Unlock()
	r.client = c
}

// VerifSessionCount returns the number of sessions the primary tracks.
func (p *Primary) VerifSessionCount() int {
	p.mu.RLock()
	defer p.mu.RUnlock()
	return len(p.sessions)
}
