package replication

import (
	replication_proto "github.com/KevoDB/kevo/proto/kevo/replication"
)

// VerifSetClient installs an in-memory client (the verification harness replaces the gRPC connection).
func (r *Replica) VerifSetClient(c replication_proto.WALReplicationServiceClient) {
	r.mu.Lock()
	defer r.mu.Unlock()
	r.client = c
}

// VerifSessionCount returns the number of sessions the primary tracks.
func (p *Primary) VerifSessionCount() int {
	p.mu.RLock()
	defer p.mu.RUnlock()
	return len(p.sessions)
}

// VerifDeliver hands one stream message to the handler the streaming state uses.
func (r *Replica) VerifDeliver(m *replication_proto.WALStreamResponse) error {
	return r.processEntriesWithoutStateTransitions(m)
}

// VerifExpectedNext returns the sequence the replica would request next.
func (r *Replica) VerifExpectedNext() uint64 { return r.batchApplier.GetExpectedNext() }

// VerifReplica returns the replica node a manager in replica mode runs (nil otherwise).
func (m *Manager) VerifReplica() *Replica {
	m.mu.RLock()
	defer m.mu.RUnlock()
	return m.replica
}
