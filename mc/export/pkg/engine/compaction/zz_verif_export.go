package compaction

// VerifTombstones lists the keys known to the tombstone tracker of the coordinator.
func (m *Manager) VerifTombstones() []string {
	if c, ok := m.coordinator.(interface{ VerifTombstones() []string }); ok {
		return c.VerifTombstones()
	}
	return nil
}
