package storage

import (
	"fmt"
	"path/filepath"
	"strings"

	"github.com/KevoDB/kevo/pkg/memtable"
	"github.com/KevoDB/kevo/pkg/sstable"
)

// VerifLayer is one layer of the read path, newest information first in Entries order of the layer itself.
type VerifLayer struct {
	Name    string
	Entries []string // "key@seq=value" / "key@seq=TOMB"
}

func verifMem(name string, mt *memtable.MemTable) VerifLayer {
	l := VerifLayer{Name: name}
	it := mt.NewIterator()
	for it.SeekToFirst(); it.Valid(); it.Next() {
		v := "TOMB"
		if !it.IsTombstone() {
			v = fmt.Sprintf("%q", it.Value())
			if len(v) > 40 {
				v = fmt.Sprintf("%s..%d", v[:40], len(v))
			}
		}
		l.Entries = append(l.Entries, fmt.Sprintf("%q@%d=%s", it.Key(), it.SequenceNumber(), v))
	}
	return l
}

func verifSST(name string, r *sstable.Reader) VerifLayer {
	l := VerifLayer{Name: name}
	it := r.NewIterator()
	n := 0
	for it.SeekToFirst(); it.Valid(); it.Next() {
		v := "TOMB"
		if !it.IsTombstone() {
			v = fmt.Sprintf("%q", it.Value())
			if len(v) > 40 {
				v = fmt.Sprintf("%s..%d", v[:40], len(v))
			}
		}
		l.Entries = append(l.Entries, fmt.Sprintf("%q@%d=%s", it.Key(), it.SequenceNumber(), v))
		if n++; n > 10000 {
			break
		}
	}
	return l
}

// VerifDump returns a canonical description of everything the future behaviour can depend on.
func (m *Manager) VerifDump() []VerifLayer {
	var out []VerifLayer
	active, imm := m.memTablePool.VerifTables()
	out = append(out, verifMem("active", active))
	for i, t := range imm {
		out = append(out, verifMem(fmt.Sprintf("pool-imm%d", i), t))
	}
	for i, t := range m.immutableMTs {
		// identify by position in the pool (same object) or dump
		idx := -1
		for j, p := range imm {
			if p == t {
				idx = j
			}
		}
		if idx >= 0 {
			out = append(out, VerifLayer{Name: fmt.Sprintf("toflush%d=pool-imm%d", i, idx)})
		} else {
			out = append(out, verifMem(fmt.Sprintf("toflush%d", i), t))
		}
	}
	for i, r := range m.sstables {
		base := filepath.Base(r.FilePath())
		lvl := strings.SplitN(base, "_", 2)[0]
		out = append(out, verifSST(fmt.Sprintf("sst%d(L%s)", i, lvl), r))
	}
	w := m.getWAL()
	next := uint64(0)
	if w != nil {
		next = w.GetNextSequence()
	}
	out = append(out, VerifLayer{Name: fmt.Sprintf("meta next=%d last=%d pending=%v closed=%v", next, m.lastSeqNum, m.memTablePool.VerifFlushPending(), m.closed.Load())})
	return out
}

// VerifWALNext returns the next sequence number of the current log.
func (m *Manager) VerifWALNext() uint64 {
	if w := m.getWAL(); w != nil {
		return w.GetNextSequence()
	}
	return 0
}

// VerifLastSeq returns lastSeqNum.
func (m *Manager) VerifLastSeq() uint64 { return m.lastSeqNum }

// VerifWALDir returns the log directory.
func (m *Manager) VerifWALDir() string { return m.walDir }

// VerifSSTDir returns the table directory.
func (m *Manager) VerifSSTDir() string { return m.sstableDir }

// VerifSwitch makes the active memtable immutable and schedules its flush, exactly
// as a write that fills the table does (the background flush runs only when scheduled).
func (m *Manager) VerifSwitch() {
	m.mu.Lock()
	defer m.mu.Unlock()
	m.scheduleFlush()
}
