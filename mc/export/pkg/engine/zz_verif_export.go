package engine

import (
	"github.com/KevoDB/kevo/pkg/config"
	"github.com/KevoDB/kevo/pkg/engine/interfaces"
)

// VerifStorage exposes the storage manager to the verification harness.
func (e *EngineFacade) VerifStorage() interfaces.StorageManager { return e.storage }

// VerifCompaction exposes the compaction manager.
func (e *EngineFacade) VerifCompaction() interfaces.CompactionManager { return e.compaction }

// VerifConfig exposes the configuration the engine runs with.
func (e *EngineFacade) VerifConfig() *config.Config { return e.cfg }
