package memtable

// VerifTables returns the active table and the immutable tables in pool order.
func (p *MemTablePool) VerifTables() (*MemTable, []*MemTable) {
	return p.active, append([]*MemTable(nil), p.immutables...)
}

// VerifFlushPending exposes the pending-flush flag.
func (p *MemTablePool) VerifFlushPending() bool { return p.flushPending.Load() }
