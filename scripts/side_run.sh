#!/bin/bash
# side_run.sh <dir> <tier> <ids...>: run checks against a private snapshot of /repo's HEAD with private binaries and
# private evidence/replay output under <dir>, so that work on /repo and /verif (seeded changes, rebuilds) cannot disturb it.
# Results are for inspection only (evidence that is committed is written by check.sh in /verif against /repo).
dir=$1; tier=$2; shift 2
mkdir -p "$dir"
if [ ! -d "$dir/src" ]; then git -C /repo worktree add -q --detach "$dir/src" HEAD || exit 2; fi
rm -rf "$dir/mc"; cp -r /verif/mc "$dir/mc"
export KEVO_SRC=$dir/src VERIF_BIN=$dir/bin VERIF_OUT=$dir/out VERIF_MC=$dir/mc
for id in "$@"; do
  /usr/bin/time -f "$id wall=%es" /verif/scripts/check.sh "$id" "$tier" > "$dir/$id.$tier.out" 2>&1
  echo "$id exit=$? $(tail -1 "$dir/$id.$tier.out" | cut -c1-200)"
done
