#!/bin/bash
# import_seeded.sh <worktree-id> <seeded-id> <demo-dest> "<pkgs>" "<demo args>" <checks...>: copy, verify, run
src=$1; id=$2; dest=$3; pkgs=$4; demo=$5; shift 5
mkdir -p /verif/seeded/$id
cp /tmp/mut/$src/MUTANT/patch.diff /tmp/mut/$src/MUTANT/*_test.go /tmp/mut/$src/MUTANT/demo.txt /tmp/mut/$src/MUTANT/note.md /verif/seeded/$id/
/verif/scripts/verify_seeded.sh $id "$dest" "$pkgs" "$demo" 2>&1 | grep -E "^ok|^FAIL|^---|== |VERIF" | cut -c1-200 | tail -14
/verif/scripts/run_seeded.sh $id "$@" | cut -c1-420
