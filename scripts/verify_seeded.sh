#!/bin/bash
# verify_seeded.sh <seeded-id> <demo-dest-relative-path> "<packages to test>" "<demo go test args>"
# Confirms in a scratch worktree: patch applies, builds, package tests pass with it, demo fails with it and passes without.
. /verif/scripts/env.sh
id=$1; dest=$2; pkgs=$3; demo=$4
dir=/verif/seeded/$id
wt=/tmp/mutverify-$$
git -C /repo worktree add -q $wt HEAD || exit 2
trap 'git -C /repo worktree remove --force '$wt' 2>/dev/null' EXIT
cd $wt
git apply $dir/patch.diff || { echo "VERIFY-FAIL: patch does not apply"; exit 1; }
$GO build ./... || { echo "VERIF-FAIL: build"; exit 1; }
echo "== existing tests with the change: $pkgs"
$GO test -count=1 -timeout 600s $pkgs 2>&1 | grep -v "no test files" | tail -15
demofile=$(ls $dir/*_test.go 2>/dev/null | head -1)
cp $demofile $wt/$dest
echo "== demonstration WITH the change (expected: FAIL)"
$GO test -count=1 -timeout 300s $demo 2>&1 | tail -6
git apply -R $dir/patch.diff
echo "== demonstration WITHOUT the change (expected: ok)"
$GO test -count=1 -timeout 300s $demo 2>&1 | tail -4
