#!/bin/bash
# seeded_regress.sh <dir> [ids...]: run every kept seeded change against the checks named in its meta.json, on a private
# worktree of /repo's HEAD with private binaries and output under <dir> (so /repo and /verif/bin are not touched).
dir=$1; shift
mkdir -p "$dir"
[ -d "$dir/src" ] || git -C /repo worktree add -q --detach "$dir/src" HEAD || exit 2
rm -rf "$dir/mc"; cp -r /verif/mc "$dir/mc"   # harness sources are frozen for the run (edits in /verif/mc do not disturb it)
export KEVO_SRC=$dir/src VERIF_BIN=$dir/bin VERIF_OUT=$dir/out VERIF_MC=$dir/mc
ids="$@"; [ -z "$ids" ] && ids=$(ls /verif/seeded)
for id in $ids; do
  m=/verif/seeded/$id/meta.json; [ -f "$m" ] || continue
  checks=$(python3 -c "import json;m=json.load(open('$m'));print(' '.join(k for k in m['run_checks'] if k in m.get('detected_by',{})))")
  git -C "$dir/src" checkout -q -- . ; git -C "$dir/src" clean -fdq
  if ! git -C "$dir/src" apply /verif/seeded/$id/patch.diff 2>/dev/null; then echo "$id: PATCH DOES NOT APPLY to HEAD"; continue; fi
  for c in $checks; do
    out=$(/verif/scripts/check.sh $c quick 2>&1); rc=$?
    if echo "$out" | grep -q "^VIOLATION property=$c"; then echo "$id: DETECTED by $c"; else echo "$id: MISSED by $c (rc=$rc) $(echo "$out" | tail -1 | cut -c1-120)"; fi
  done
done
git -C "$dir/src" checkout -q -- .
echo finished
