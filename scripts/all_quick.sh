#!/bin/bash
# all_quick.sh [ids...]: run the quick tier of every check (or the given ones) on the current tree and print one line each
cd /verif
ids="$@"; [ -z "$ids" ] && ids=$(python3 -c "import json;print(' '.join(c['property_id'] for c in json.load(open('MANIFEST.json'))['checks']))")
for id in $ids; do
  out=$(scripts/check.sh $id quick 2>&1); rc=$?
  echo "$id rc=$rc $(echo "$out" | grep -c '^VIOLATION') violations; $(echo "$out" | tail -1 | cut -c1-170)"
done
