# sourced by every script: toolchain + offline env
export GOTOOLCHAIN=local GOFLAGS=-mod=mod GOPROXY=off GOSUMDB=off
GO=/root/go/pkg/mod/golang.org/toolchain@v0.0.1-go1.24.2.linux-amd64/bin/go
if [ ! -x "$GO" ]; then GO=$(command -v go1.26 || command -v go); fi
export GO
export VERIF=/verif
export KEVO_SRC=${KEVO_SRC:-/repo}
export SCRATCH=${VERIF_SCRATCH:-/dev/shm/kvverif-$(id -u)}
mkdir -p "$SCRATCH"
