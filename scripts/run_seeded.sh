#!/bin/bash
# run_seeded.sh <seeded-id> [check ids...]: apply /verif/seeded/<id>/patch.diff to /repo, run the quick checks, undo.
# Prints DETECTED / MISSED per check. The repository is restored even if a check fails.
id=$1; shift
dir=/verif/seeded/$id
[ -f "$dir/patch.diff" ] || { echo "no $dir/patch.diff"; exit 2; }
checks="$@"
[ -z "$checks" ] && checks=$(python3 -c "import json;print(' '.join(json.load(open('$dir/meta.json'))['run_checks']))")
# evidence and replay files of these runs do not belong to the unchanged tree: keep them out of /verif
export VERIF_OUT=/tmp/seeded-out-$$
cd /repo
if [ -n "$(git status --porcelain)" ]; then echo "/repo is not clean"; exit 2; fi
git apply "$dir/patch.diff" || { echo "patch does not apply"; exit 2; }
trap 'git -C /repo checkout -- . ; git -C /repo clean -fdq pkg cmd proto 2>/dev/null; rm -rf /tmp/seeded-out-'$$ EXIT
for c in $checks; do
  out=$(/verif/scripts/check.sh $c quick 2>&1); rc=$?
  if echo "$out" | grep -q "^VIOLATION property=$c"; then
    echo "DETECTED $id by $c (exit $rc): $(echo "$out" | grep -A1 '^VIOLATION' | sed -n 2p | cut -c1-220)"
  elif [ $rc -eq 2 ]; then
    echo "HARNESS-ERROR $id with $c: $(echo "$out" | grep HARNESS-ERROR | head -2 | cut -c1-300)"
  else
    echo "MISSED $id by $c (exit $rc): $(echo "$out" | tail -1 | cut -c1-160)"
  fi
done
