#!/bin/bash
# check.sh <ID> <tier>: rebuild the instrumented harness from the current tree and run one check
. /verif/scripts/env.sh
id=$1; tier=${2:-quick}
[ -n "$VERIF_TIER" ] && [ -z "$2" ] && tier=$VERIF_TIER
flavor=""
bin=$(/verif/scripts/build.sh full) || { echo "HARNESS-ERROR property=$id build failed"; exit 2; }
if [ "$id" = "C07" ] || [ "$id" = "C17" ] || [ "$id" = "C18" ] || [ "$id" = "C06" ] || [ "$id" = "C04" ] || [ "$id" = "C03" ] || [ "$id" = "C16" ]; then /verif/scripts/build.sh full race >/dev/null || { echo "HARNESS-ERROR property=$id race build failed"; exit 2; }; fi
cd /verif
exec "$bin" check "$id" "$tier"
