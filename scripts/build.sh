#!/bin/bash
# build.sh <profile> [race]  -> prints path of the built kvcheck binary
set -e
. /verif/scripts/env.sh
profile=${1:-full}; race=${2:-}
cd ${VERIF_MC:-/verif/mc}
mkdir -p /verif/bin
if [ ! -x /verif/bin/kvinstr ] || [ -n "$(find cmd/kvinstr -newer /verif/bin/kvinstr -name '*.go')" ]; then
  $GO build -o /verif/bin/kvinstr ./cmd/kvinstr >&2 || { echo "HARNESS-ERROR: kvinstr build failed" >&2; exit 2; }
fi
work=$SCRATCH/build-$profile-$$
rm -rf "$work"; mkdir -p "$work"
/verif/bin/kvinstr -src "$KEVO_SRC" -out "$work" -overlay "$work/overlay.json" -profile "$profile" -rt "${VERIF_MC:-/verif/mc}/rt" -export "${VERIF_MC:-/verif/mc}/export" >&2 || { rm -rf "$work"; exit 2; }
bindir=${VERIF_BIN:-/verif/bin}; mkdir -p "$bindir"
bin=$bindir/kvcheck-$profile${race:+-race}
flags=""
[ -n "$race" ] && flags="-race"
# -trimpath keeps the build cache valid although the scratch dir name changes
if ! $GO build -trimpath $flags -overlay "$work/overlay.json" -o "$bin.$$" ./cmd/kvcheck >&2; then
  rm -rf "$work" "$bin.$$"; echo "HARNESS-ERROR: instrumented build failed (profile $profile)" >&2; exit 2
fi
mv "$bin.$$" "$bin"
rm -rf "$work"
echo "$bin"
