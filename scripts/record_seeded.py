#!/usr/bin/env python3
"""record_seeded.py <id> <property> <needs> <first_result> <checks,comma> <detected_by: 'C10=how;C02=how'> <design-row-text>
Writes seeded/<id>/meta.json and appends a row to the table in DESIGN.md section 0a."""
import json, os, sys, subprocess
k, prop, needs, first, checks, det, row = sys.argv[1:8]
d = '/verif/seeded/' + k
base = subprocess.check_output(['git', '-C', '/repo', 'log', '-1', '--format=%h']).decode().strip()
v = dict(id=k, property=prop, needs=needs, first_result=first, run_checks=checks.split(','),
         detected_by=dict(x.split('=', 1) for x in det.split(';') if x), base_commit=base, files=sorted(os.listdir(d)),
         confirmed='scripts/verify_seeded.sh in a scratch worktree: patch applies, go build ./... ok, tests of the touched packages pass with the change, the demonstration fails with it and passes without it',
         ran='scripts/run_seeded.sh ' + k + ' ' + checks.replace(',', ' '))
json.dump(v, open(d + '/meta.json', 'w'), indent=1)
s = open('/verif/DESIGN.md').read()
anchor = '| C20-empty-manifest-as-missing'
i = s.index(anchor); j = s.index('\n', i)
s = s[:j + 1] + row + '\n' + s[j + 1:]
open('/verif/DESIGN.md', 'w').write(s)
print('recorded', k)
