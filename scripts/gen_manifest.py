#!/usr/bin/env python3
"""Generates /verif/MANIFEST.json from the table below (kept valid at all times)."""
import json, subprocess

CLAIMED = {
 "C18": dict(
   level="model_checking", design="§3 C18, §2.2",
   technique="stateless model checking of the implementation: exhaustive interleaving exploration (controlled scheduler, happens-before caching) + bounded-exhaustive operation sequences against a reference model",
   text="Every insert/delete sequence up to depth 5 (6 thorough) over 2 keys with non-monotone/repeated sequence numbers is run on the real MemTable and compared with a reference multi-version map (Get, full iteration order, Seek, immutability). Every interleaving of one writer with one or two lock-free readers (Get, Seek, Contains, full iteration, reader on a table that turns immutable) is explored on the real skiplist with atomics and locks as scheduling points — unbounded for 1 reader, deviation bound 3 (quick) / unbounded (thorough) for 2 readers. The scenarios also run free (no scheduler) in a -race build, 8 / 100 iterations each: a race report outside Close, a panic or a hang is a violation.",
   note="Trusted: Go runtime, the shims' faithfulness to sync/atomic (SC interleavings of visible operations; weak-memory effects and data races are C07's subject). Bounds: 2 keys, <=3 writer operations, <=2 readers."),
 "C11": dict(
   level="exploration", design="§3 C11, §2.3",
   technique="bounded-exhaustive enumeration of table shapes x seek targets, and exhaustive single-byte damage enumeration, on the real SSTable writer/reader",
   text="Every table shape of the alphabet (entry counts around the restart interval 16, all tombstone masks up to 4/6 entries, empty values, prefix/binary/long keys, every position of the first difference between neighbouring keys for key lengths 8..31 with equal and differing tails, 2-5 block tables) is written with the real Writer and read back with the real Reader: forward iteration must equal the written list (key, value, deletion flag, sequence number), Seek to every key/gap/end followed by iteration to the end, SeekToLast, Get of every key and every non-key. Every single byte of the small files (and head/stride/tail positions of the multi-block file) is damaged with three value classes; open+iterate+get must fail with an error or yield only written entries - a panic, fatal error, fabricated or disordered entry is a violation.",
   note="Trusted: Go runtime, tmpfs. Not covered: multi-byte damage, keys > 302 B, values > 20 KiB. A worker killed by a fatal error is reported with the case it was evaluating."),
 "C09": dict(
   level="model_checking", design="§3 C09, §2.4",
   technique="explicit-state exploration of operation programs on the real WAL (all sequences up to a depth over a boundary-shape alphabet) against a list reference model",
   text="Every program up to depth 3 (4 thorough) over appends of 10-14 key/value shapes chosen on the record-format boundaries, 6-7 batches (incl. totals around the 64 KiB buffer and a batch that must be rejected without trace), rotation and reopen is run on the real wal.WAL under two sync modes; ReplayWALDir must return exactly the appended entries (type, key, value, sequence number) in order and GetEntriesFrom(s) exactly the stored entries with seq >= s for every s in [0,max+2].",
   note="Trusted: Go runtime, tmpfs. Rotation hands the sequence number over the way the engine is supposed to. Bounds: depth, shape alphabet, <=2 rotations/reopens."),
 "C10": dict(
   level="fault_enumeration", design="§3 C10, §2.3",
   technique="exhaustive damage enumeration (every truncation offset, every single-byte overwrite x 5 value classes) over recorded logs, recovery run on the real WAL reader and engine",
   text="For 8 base logs every truncation offset of the newest file and every single-byte overwrite (5 value classes) is applied; ReplayWALDir must deliver a subsequence of the appended entries (all four fields equal) containing every entry completely written before the first damaged byte and every entry of older files; the real engine must open, show those entries and nothing that was never written, keep the log files, accept two writes and show old and new data after a clean close and a second recovery.",
   note="Trusted: an independent parser of the undamaged file supplies record boundaries. Single damage per log; files > 4 KiB use header/boundary/stride positions."),
 "C01": dict(
   level="model_checking", design="§3 C01, §2.4",
   technique="explicit-state search over operation programs on the real engine (deterministic controlled scheduler, state de-duplication by canonical implementation state) against a map reference model",
   text="All programs up to depth 4-5 (5-6 thorough) over {put, delete, 3-key commit, delete+put commit, rollback, flush, background-flush-to-quiescence, reopen, compact, compact-range} x 4-5 configurations that move data between active table, immutable tables and SSTables at different moments are executed on the real EngineFacade; after each program every key (incl. a binary key and a never-written key) is read and compared with the model. A value-shape sub-run pushes empty, nil, 1 B, one-record, fragmented, multi-block values, a 4 KiB key and a 90 KB commit issued behind a small write through all maintenance sequences of length <= 3 (sync immediate / none / batch).",
   note="Trusted: the controlled scheduler runs background threads only at explicit bg steps or when the client waits (one legal schedule; others are C06). State key soundness argued in DESIGN §2.4. Bounds: depth, 3 keys."),
 "C02": dict(
   level="fault_enumeration", design="§3 C02, §2.3",
   technique="exhaustive crash-point and torn-write enumeration over the recorded file-system call log of every explored program; each crash state recovered by the real engine and compared with the admissible history prefixes",
   text="For every program of the explicit-state search (depth 3-4 quick, 4-5 thorough; sync immediate/none/batch; memtable 32 MiB / 1 B, max memtables 2-4) every prefix of the file-system call log inside the last operation and every torn variant of each write is materialised and opened with the real engine: the recovered state must equal the model after an admissible number of operations (acknowledged..issued with synchronous logging, any prefix otherwise; a transaction is one operation), opening must succeed, and after 2 more writes, a clean close and a reopen state and sequence stamps must continue correctly. A shape sub-run does the same for a 90 KB commit and a 70 KB put issued behind small writes (larger than the log buffers) and for the step after them.",
   note="Process-death crash model (completed writes survive; fsync irrelevant; power loss not modelled). One open known finding (torn write inside a batch) is listed in known_findings.jsonl."),
 "C05": dict(
   level="model_checking", design="§3 C05",
   technique="exhaustive enumeration of layer arrangements x stack shapes on the real engine, each checked with a complete scan/seek/range/filter suite against a sorted-map model",
   text="Every assignment {absent,value,tombstone} of keys x layers (729+729 quick, 19683 thorough) is built oldest-first in 7 layer-stack shapes (memtable, immutables, SSTables, after reopen, SSTables only with retired logs) on the real engine; on each the full scan, Seek to 7 targets + iteration, SeekToLast, all ranges over those bounds (SeekToFirst/Seek/SeekToLast), prefix/suffix filters, and the same inside read-write transactions with 5 overlays and a read-only transaction must equal the model. Physical shapes (17/33/40/120 keys, 3-block tables) are scanned purely from SSTables with seeks to every key and gap. Concurrent scans (full, and range scans starting at a key inserted meanwhile) against writers, flush and compaction are explored over all interleavings up to 2 (1 for maintenance) deviations.",
   note="Layer boundaries forced through an export hook that calls the engine's own scheduleFlush; concurrent-scan clause is covered by C18's iterator scenarios and the C06 harness family."),
 "C08": dict(
   level="model_checking", design="§3 C08",
   technique="explicit-state search over write/flush/restart programs on the real engine; oracle on the log read back and on the reported last sequence after every step",
   text="All programs up to depth 5-6 (6-7 thorough) over {put, delete, 3-entry and 1-entry commits, raw batches with two and with no entries, flush, bg, reopen} x configurations: the reported last sequence never decreases (also across reopen), the log directory read back holds exactly the program's writes in issue order, each stamped strictly higher than every earlier write, batch entries stamped alike; one configuration makes every reopening start a new log file. Concurrent part: 4 scenarios in which two client threads write while a flush rotates the log are explored over all interleavings up to 2 (3) deviations; the stamp of every acknowledged write must exceed the stamp of every write acknowledged before it started. Three retention runs (real Primary, acknowledgements that trigger its log retention, restart) check that the sequence position survives whatever retention removes. After crash recovery the same stamp rule is applied by C02's continuation step.",
   note="Stamps are read from the log (what replication ships)."),
 "C03": dict(
   level="model_checking", design="§3 C03",
   technique="three exhaustive explorations of the implementation: bounded-exhaustive transaction bodies against a map model, crash-point/torn-write enumeration inside commit, and stateless interleaving exploration (controlled scheduler, deviation bound, happens-before caching) of a committer against readers",
   text="(1) every transaction body of <=3 (4) operations (put, delete of 2 keys, put of an empty value, put of the committed value, a scan inside the transaction) x {commit, rollback, abandon} x pre-states x {now, after reopen}, with caller buffers overwritten after each call, plus batch shapes (1, 3, beyond the 64 KiB log buffer, an entry larger than a record by far / by one byte / filling it exactly, empty value, commit on a closed engine); (2) every crash state inside a commit of 1/2/3/3x30KiB entries and inside the following write: recovered state holds all or none; (3) every interleaving (deviation bound 2 quick / 3 thorough) of a 2-key commit with Get(a);Get(b), Get(b);Get(a), a read-only transaction and a scan: nobody observes a strict subset. The scenarios also run free (no scheduler) in a -race build, 8 / 100 iterations each: a race report outside Close, a panic or a hang is a violation.",
   note="Process-death crash model; one open known finding (torn write between the records of a batch)."),
 "C12": dict(
   level="model_checking", design="§3 C12",
   technique="exhaustive enumeration of table-file arrangements run through the real compaction coordinator, explicit-state search over flush/compact/restart programs on the real engine, and crash-point enumeration inside compaction",
   text="File level: every {absent,value,tombstone} assignment of 3 keys x files for 10 file-set shapes (2 keys for the 4-file shapes in the quick tier; three shapes make a level outweigh the next one so that the size-ratio selection runs) is written with the real SSTable writer; TriggerCompaction (until nothing is selected, checked after every cycle) and CompactRange over 5 ranges run with tracked / unknown / expired tombstones; the newest-wins merged view of all files must not change, outputs must be sorted and files of a level >=1 must not share keys. Engine level: all programs up to depth 4 (6 thorough) over {flushed put/delete of 2 keys, compact, compact-range, reopen, clock +25 h}: reads = model live, after reopen, after reopen with the flushed log files retired, and after one more compaction. Crash points: every call-log prefix and torn write inside a compaction following 3 flushed writes.",
   note="Recency rule (lower level newer; within level 0 higher file number newer) is the specification's. Log retirement is simulated by deleting flushed log files."),
 "C06": dict(
   level="model_checking", design="§3 C06, §2.2",
   technique="stateless model checking of the real engine: exhaustive interleaving exploration under a controlled scheduler (deviation bound, happens-before caching) with a porcupine linearizability oracle",
   text="11 scenarios (2-3 client threads x 1-2 put/get/delete on colliding keys; the engine's own background flush thread; explicit flush and compaction callers; memtable 1 B so that every write switches the table, signals the flush and rotates the log) are explored over all interleavings up to 2 deviations (3 thorough; the two 3-thread scenarios around an explicit flush one less). Every recorded call/return history must be linearizable against a whole-store model with failed writes as no-ops, final reads included; every acknowledged put must be in the log exactly once and no failed put at all. The scenarios also run free (no scheduler) in a -race build, 8 / 100 iterations each: a race report outside Close, a panic or a hang is a violation.",
   note="SC interleavings of visible operations; data races are C07's subject. Bounds: threads, operations per thread, deviation bound."),
 "C04": dict(
   level="model_checking", design="§3 C04, §2.2",
   technique="stateless model checking of the real engine: exhaustive interleaving exploration (controlled scheduler, deviation bound, happens-before caching, post-state prediction) with a porcupine strict-serializability oracle over transaction-level operations",
   text="7 scenarios of 2-3 concurrent transactions (read-modify-write with commit or rollback; read-only with repeated reads and a scan; one scenario starts from the state 'a read-write transaction is open and has written' with two read-only clients arriving) are explored over all interleavings up to 2 deviations for 2 threads and 1 for 3 threads (thorough: +1). Each transaction is one operation spanning begin..commit with its observed reads and its write set; the history, closed by a final read-only transaction, must be strictly serializable; own writes must be visible inside the transaction (point reads, the unbounded scan and, in the sequential own-view unit, every bounded scan [lo, hi) over the keys the body names); read-only transactions must be repeatable and their scan must equal their reads. Sequentially, every transaction body of <=3 (4) operations over 2 keys on 3 pre-states must read and scan its own view (committed state overlaid with its buffered operations) before it ends. The scenarios also run free (no scheduler) in a -race build, 8 / 100 iterations each: a race report outside Close, a panic or a hang is a violation.",
   note="Non-transactional writes are excluded as in the statement. SC interleavings of visible operations."),
 "C17": dict(
   level="model_checking", design="§3 C17, §2.2",
   technique="bounded-exhaustive call sequences on one transaction plus stateless interleaving exploration of the transaction registry with timeouts, clock jumps and tickers as explorer-chosen environment events; deadlock detection by the scheduler",
   text="(A) every sequence of <=4 (5) calls {get, put, delete, scan, commit, rollback} on a read-write and a read-only transaction: first finish takes effect once, later calls return the closed error and change nothing, a probe begin is granted afterwards. (A2) every sequence of <=3 (4) requests on one remote handle through the network service and its registry, including the requests a server rejects (empty / 4097-byte key, oversized value), followed by the client rollback and the connection cleanup: a probe writer is granted, a finished handle is not finished twice, data shows exactly a successful commit. (B) 8 registry scenarios (begin waiting for the lock while the 10 s timeout fires, abandonment + idle cleanup direct and via ticker, connection cleanup, graceful shutdown, commit racing rollback, stale cleanup racing commit) explored over all interleavings and all ready select cases up to 2 (3) deviations; after every terminal state a probe BeginTransaction(false) must be granted (otherwise the deadlock witness names the blocked call sites), a write is visible iff its commit succeeded, commit and rollback never both succeed. The scenarios also run free (no scheduler) in a -race build, 8 / 100 iterations each: a race report outside Close, a panic or a hang is a violation.",
   note="Virtual time; a client never requests a second transaction while holding one."),
 "C07": dict(
   level="model_checking", design="§3 C07, §2.2",
   technique="stateless model checking: exhaustive interleaving exploration (deviation bound 1 quick / 2 thorough) of every pair of public entry points for deadlock, livelock, panic and non-returning calls; data races by the Go race detector on free-running executions of the same bodies",
   text="Entry points come from the method sets of *EngineFacade, interfaces.Transaction, interfaces.CompactionManager and stats.Collector by reflection (a method without body or recorded exclusion is a HARNESS-ERROR, so new methods cannot be silently uncovered). All unordered pairs of 22 engine-level bodies, all pairs of 7 transaction methods on one shared transaction, transaction methods against engine traffic and 4 triples run on an engine with 2 level-0 files, a pending immutable table and a live background flush thread. Pass 1 explores every interleaving with <=1 (2) deviations: deadlock (no enabled thread, witness = blocked threads and sites), livelock, panic, step horizon or an unusable engine is a violation. Pass 3 runs the same bodies free-running in a -race build (5 / 60 iterations per group): any race report outside Close, panic, fatal error or 60 s hang is a violation, fingerprinted by the two racing functions.",
   note="The race clause is decided by the happens-before race detector on sampled free-running schedules (its verdict does not depend on the accesses actually overlapping, only on the absence of synchronisation between them), not by the exhaustive pass; a cooperative scheduler's hand-offs would blind the detector. Close concurrent with other calls (including the engine's own background flush) is out of scope."),
 "C20": dict(
   level="exploration", design="§3 C20",
   technique="exhaustive boundary-value enumeration of configurations against an independently written constraint table; exhaustive truncation, single-byte damage and crash-cut enumeration of the stored manifest, opened by the real engine",
   text="For 3 valid base configurations every single-field deviation, every pair of fields over their boundary values and the full warning x critical product are validated, saved and loaded: Validate accepts iff the documented table does, a rejected configuration makes SaveManifest fail with zero recorded file-system calls, an accepted one round-trips in every field. A database created with an all-non-default configuration must run with it (also after reopen); every truncation, every single-byte damage x 5 classes and every crash cut / torn write of a manifest update over existing data must make opening fail with an error or run with the stored (old or new) configuration, never with defaults.",
   note="A damaged byte that yields another valid configuration is undetectable without a checksum and not flagged. A missing manifest means a new database."),
 "C19": dict(
   level="model_checking", design="§3 C19",
   technique="explicit-state search over request sequences against the real gRPC service handlers (in-memory streams) on a real engine, states de-duplicated by implementation state, differential oracle against the embedded API and a map model",
   text="All sequences up to depth 4 (5 thorough) over 23 (26) requests - incl. a second client's read-only handle open next to the first, a node-info differential over 360 provider answers - puts incl. empty value and boundary sizes, deletes, batches (repeated keys, 1000 ops), transactions by handle (begin rw/ro, put, delete, commit, rollback, finished and unknown handles) and 8 kinds of requests outside the documented limits that must be rejected - are sent to the real KevoServiceServer; after every sequence Get/TxGet of 7 keys, all 32 combinations of scan options for Scan/TxScan, limit, GetNodeInfo, finished handles and the embedded reads on the same engine are compared with the model (prefix/suffix override start/end as documented); rejected requests must change nothing, including the open transaction.",
   note="Handlers are called directly (marshalling not exercised; empty bytes passed as nil like protobuf delivers them). Compact/GetStats are administrative and excluded."),
 "C16": dict(
   level="model_checking", design="§3 C16",
   technique="computed mutator set (differential run on a read-write twin) over entry points enumerated by reflection, exhaustive interleaving exploration of the replication applier against client mutators, and role reporting of the real replication manager in its three modes",
   text="Every entry point of *EngineFacade, Transaction and *KevoServiceServer (33 bodies incl. raw batches and BatchWrite requests of one, two and three entries; a new method without body or recorded exclusion is a HARNESS-ERROR) is run on a read-write twin and on the same state in read-only mode: calls that change scan or log on the twin (12 mutators) must return a read-only error and change nothing on the replica, the *Internal bypasses must still take effect, reads must work. The applier (2 replicated entries) is explored against client Put/Delete/BatchWrite over all interleavings up to 2 (3) deviations. replication.Manager is started in standalone/primary/replica mode: GetNodeInfo must report role, primary address and read_only truthfully and a started replica must reject client writes. The scenarios also run free (no scheduler) in a -race build, 8 / 100 iterations each: a race report outside Close, a panic or a hang is a violation.",
   note="The window inside Manager.Start before the read-only switch is not flagged. The manager unit uses real loopback listeners."),
 "C13": dict(
   level="model_checking", design="§3 C13, §2.5",
   technique="exhaustive enumeration of fault schedules (drop, duplicate, late duplicate, reorder by one or two messages, connection break on the first 3 messages of the first 4 connections, <=1 / <=2 faults) over deterministic fair executions of the real Primary and Replica in discrete-event virtual time, with a recording applier as oracle",
   text="The real replication.Primary (on a real engine, observer + poll + heartbeat loops) and the real replication.Replica (state machine, batch applier, engine applier on a second read-only engine) run over an in-memory link that replaces gRPC (bounded window, message copying, connection semantics). 43 scenarios (a primary whose log runs without sync / with batched sync or whose memtable is full after every write, a replica run and restarted by the real replication.Manager after a transaction, large values across the batch size, flushes in a row, a rejected oversized transaction between writes, single writes incl. delete, a 3-entry and a 130-entry transaction, flushes with log rotation, a lone write, writes arriving alone after the replica caught up; replica joins before/during/after the writes or is restarted; default and uncompressed configuration) x every fault vector within the bound: the sequence of entries handed to the replica's engine must equal the primary's log in order, none skipped, none applied twice; the reported applied sequence never decreases nor exceeds the highest applied entry. Part B: explicit-state search over every delivery sequence (depth 5 / 7) of the 15 whole-sequence batches of a 5-sequence history to the real WALBatchApplier and to the real Replica message handler, same oracle after every delivery plus: the in-order batch is applied completely, any other batch applies nothing, a forward gap is answered by a retransmission request; a further target delivers every batch also with the replica's local applier refusing its k-th entry (no entry applied before the ones ahead of it, the reported sequence covers applied entries only).",
   note="Timer races are not explored in these runs (due-time order). One open known finding (restart re-applies the history)."),
 "C14": dict(
   level="model_checking", design="§3 C14, §2.5",
   technique="the same exhaustive fault-schedule enumeration over fair discrete-event executions of the real Primary and Replica, with a convergence oracle",
   text="For every scenario x fault vector of C13: 20 virtual seconds after the last write, with the writer stopped and no further faults, the replica's visible state (full scan of its engine) equals the primary's and is still equal 5 s later; primary writes never fail.",
   note="'Bounded time' = 20 s of virtual time under the fair continuation; loopback latency is not modelled."),
 "C15": dict(
   level="model_checking", design="§3 C15",
   technique="stateless interleaving exploration (deviation bound 1 quick / 2 thorough, happens-before caching) of client calls on a primary with misbehaving replica sessions, deadlock detection by the scheduler; plus a discrete-event run for topology changes",
   text="The real Primary on a real engine with replica sessions over an in-memory stream of bounded window: a replica that never reads (window 1) while clients put/get/commit, an acknowledgement or a retransmission request for the stuck session followed by a client put, flush and get, a connection cut abruptly (thorough), and a healthy acknowledging replica whose poll loop runs (ticker as environment event) while clients write. In every explored schedule every client call must return nil; a client thread waiting - directly or through a lock chain - on a stream send or on a lock held by a replication thread is reported as the scheduler's deadlock witness with the blocked call sites. A discrete-event run with one stalled and one healthy replica checks that 45 writes finish, the stalled session leaves GetReplicaInfo after the heartbeat timeout and the healthy one received everything.",
   note="'Normal time' is decided as absence of a blocking dependency on the replica, not as a latency figure. gRPC flow control = bounded in-memory window."),
}

ALL = ["C%02d" % i for i in range(1, 21)]

def main():
    checks = []
    for pid in ALL:
        if pid not in CLAIMED:
            continue
        c = CLAIMED[pid]
        checks.append({
            "property_id": pid,
            "quick_cmd": f"scripts/check.sh {pid} quick",
            "thorough_cmd": f"scripts/check.sh {pid} thorough",
            "evidence_file": f"/verif/evidence/{pid}.json",
            "replay_cmd_template": "bin/kvcheck-full replay {path}",
            "engine": "kvcheck",
            "level_claimed": {"category": c["level"], "text": c["text"], "design_ref": c["design"]},
            "level_note": c["note"],
            "technique": c["technique"],
        })
    na = [{"property_id": p, "reason": "check not built yet (work in progress; see DESIGN.md §3 for the planned exhaustive exploration)"} for p in ALL if p not in CLAIMED]
    m = {
        "version": 1,
        "setup_cmd": "scripts/setup.sh",
        "hooks": {
            "guard": "overlay (go build -overlay; no build tag and no hook code in the repository)",
            "enable": "scripts/build.sh runs cmd/kvinstr over /repo's working tree and builds cmd/kvcheck with -overlay: rewritten copies of pkg/**.go (sync, sync/atomic, time, context, os, math/rand imports redirected to shims; go/chan/select rewritten to scheduler calls) plus virtual packages pkg/zzverif/*",
            "baseline_off_cmd": "cd /repo && go test -vet=off -count=1 -timeout 25m ./...",
            "source_commits": [],
            "add_only": True,
        },
        "engines": [
            {"name": "kvcheck", "path": "/verif/mc", "serves_properties": [c["property_id"] for c in checks],
             "kind_free_text": "hand-written stateless model checker for Go: syntactic instrumenter (overlay), cooperative scheduler with deviation-bounded DFS and happens-before caching, crash-state enumerator over a recorded file-system log, bounded-exhaustive program explorer with reference models"},
        ],
        "checks": checks,
        "not_applicable": na,
        "notes": "Fixes of genuine defects are unguarded 'fix:' commits in /repo, listed in known_findings.jsonl (status fixed). Open findings are listed there with the fingerprint of the failing witness.",
    }
    json.dump(m, open("/verif/MANIFEST.json", "w"), indent=1)
    print("MANIFEST.json:", len(checks), "checks,", len(na), "not applicable")

main()
