#!/bin/bash
# setup.sh: build the framework from files on disk only (offline)
set -e
. /verif/scripts/env.sh
cd /verif/mc
mkdir -p /verif/bin /verif/evidence /verif/replays
$GO build -o /verif/bin/kvinstr ./cmd/kvinstr
/verif/scripts/build.sh full >/dev/null
/verif/scripts/build.sh full race >/dev/null
echo "setup ok: $(ls /verif/bin)"
